"""C03 - see enc_rules.c03"""
import enc_rules


def run(chk):
    enc_rules.c03(chk)
