"""C04 - see enc_rules.c04"""
import enc_rules


def run(chk):
    enc_rules.c04(chk)
