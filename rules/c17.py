"""C17 - the length probe is a function of the first three bytes only."""
from common import *
from entries import len_term, len_leaf


def run(chk):
    an, prog = chk.an, chk.an.prog
    ent = 'ctx.get_length'
    chk.explanation = (
        'get_length is interpreted with a packet of free length and free bytes; its leaves partition the whole input '
        'space. R-class: for each of the 256 values of byte 1, every leaf containing that value (and feasible for '
        'len >= 3) must return Ok(byte2 + 4) iff the value is 0x0F, else Err((Invalid, Unknown)). R-dep: no guard atom '
        'and no outcome of a len>=3 leaf mentions anything but bytes 1-2 (and len only in atoms that len >= 3 settles). '
        'R-panic: no leaf, at any length including 0-2, panics or is unanalysable.')
    chk.rules_text = 'R-class (256 values of byte 1 x leaves), R-dep (free symbols of guards/outcomes), R-panic (all leaves)'
    chk.assumptions = ['none on the input: length and every byte are free symbols']
    if ent not in an.entries:
        chk.ob('entry-present', ent, False, chk.key(ent, 'entry-present', ent, 'missing'), 'get_length not found')
        return
    leaves, na = an.leaves(ent)
    b1, b2 = in_leaf('packet', 1), in_leaf('packet', 2)
    ge3 = mk_cmp('Ge', len_term('packet'), K(USIZE, 3))[1]
    allowed_syms = {b1, b2, len_leaf('packet')}
    # R-panic
    for i, lf in enumerate(leaves):
        fn, sp = local_site(prog, lf)
        if lf.kind != 'return':
            chk.ob('R-panic', '%s leaf %d' % (ent, i), False,
                   chk.key(ent, 'R-panic', fn, 'panic:%s:%s' % lf.panic),
                   'get_length %s for inputs with %s: %s' % ('panics' if lf.kind == 'panic' else 'cannot be analysed', '; '.join(guard_text(lf, na)) or 'any input', lf.panic[1]),
                   detail={'leaf': dump_leaf(lf, prog, na), 'call_path': call_path(lf)}, site=sp)
        else:
            chk.ob('R-panic', '%s leaf %d' % (ent, i), True)
    # R-class / R-dep on leaves feasible with len >= 3
    long_leaves = []
    base = Know()
    base.assume(ge3)
    for i, lf in enumerate(leaves):
        k = feasible_with(lf, [ge3])
        if k is None:
            continue
        long_leaves.append((i, lf, k))
        if lf.kind != 'return':
            continue
        fn, sp = local_site(prog, lf)
        # R-dep
        bad = []
        for a in lf.facts[na:]:
            ls = atom_leaves(a)
            if not ls <= allowed_syms:
                bad.append('guard mentions %s' % ', '.join(sorted(show_leaf(l) for l in ls - allowed_syms)))
            elif len_leaf('packet') in ls and base.decide(a) is not True:
                bad.append('guard depends on the total length: %s' % show_atom(a))
        res = describe_result(prog, lf.value)
        if res[0] == 'Ok':
            ls = leaves_of(res[1])
            if not ls <= {b2}:
                bad.append('returned length depends on %s' % ', '.join(sorted(show_leaf(l) for l in ls - {b2})))
        chk.ob('R-dep', '%s leaf %d' % (ent, i), not bad,
               chk.key(ent, 'R-dep', fn, 'dep:' + ';'.join(bad)), '; '.join(bad), site=sp,
               detail={'leaf': dump_leaf(lf, prog, na)})
    expect_ok = mk_lin(USIZE, 4, {b2: 1})
    for v in range(256):
        chk.evals()
        hits = [(i, lf, k) for (i, lf, k) in long_leaves if v in (k.leaf_allowed(b1) or ())]
        problems = []
        if not hits:
            problems.append('no leaf covers byte1=0x%02X' % v)
        for i, lf, k in hits:
            if lf.kind != 'return':
                continue  # reported by R-panic
            res = describe_result(prog, lf.value)
            if v == 0x0F:
                if res[0] != 'Ok' or eq_under(k, res[1], expect_ok) is not True:
                    problems.append('byte1=0x0F gives %s, expected Ok(byte2 + 4)' % show_value(lf.value, prog))
            else:
                if res != ('Err', 'Invalid', 'Unknown'):
                    problems.append('byte1=0x%02X gives %s, expected Err((Invalid, Unknown))' % (v, show_value(lf.value, prog)))
        site = local_site(prog, hits[0][1])[1] if hits else None
        chk.ob('R-class', '%s byte1=0x%02X' % (ent, v), not problems,
               chk.key(ent, 'R-class', an.entries[ent]['key'], 'byte1=%02X:%s' % (v, ';'.join(problems))),
               '; '.join(problems), site=site, nontrivial=v in (0x0E, 0x0F, 0x10, 0x00, 0xFF),
               show='byte1 = 0x%02X (len >= 3): %s' % (v, '; '.join(show_value(lf.value, prog) for _, lf, _ in hits if lf.kind == 'return')) if v in (0x0E, 0x0F, 0x10) else None,
               detail={'leaves': [dump_leaf(lf, prog, na) for _, lf, _ in hits]})
    chk.floor('leaves of get_length', len(leaves), 2)
    chk.floor('byte-1 values classified', chk.evaluations, 256)
