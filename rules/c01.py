"""C01 - encode then decode is the identity on message type and payload (summary composition)."""
from common import *
from decoder import *
from entries import len_term, len_leaf
import encoders as E
import enc_rules
import decode_ref
import commands
import enums

DEC = 'ctx.decode_packet'


def expected_type(enc, lf):
    if enc.kind in ('request', 'response'):
        return 0x00, (11 if enc.kind == 'request' else 12)
    if enc.kind == 'vendor':
        fmt = lf.know.leaf_allowed(in_leaf('format', 'format'))
        if fmt == frozenset([0]):
            return 0x7E, 9
        if fmt == frozenset([1]):
            return 0x7F, 9
        return None, None
    if enc.kind == 'writer':
        mt = commands.MESSAGE_TYPE_OF_WRITER[enc.api]
        if isinstance(mt, int):
            return (mt, 9) if mt != 0 else (None, None)
        al = lf.know.leaf_allowed(enc.enum_leaf(mt[1]))
        if al is not None and len(al) == 1:
            return next(iter(al)) & 0x7F, 9
    return None, None


def compose(chk, enc, lf, extra_atoms=()):
    """Interpret decode_packet with `packet` bound to the abstract output buffer of an encoder leaf."""
    an = chk.an
    length = E.ok_length(an.prog, lf)
    dkey = an.entries[DEC]['key']

    def make(interp, st, inst):
        st.heap.update(lf.heap)
        st.know = lf.know.clone()
        for a in extra_atoms:
            st.know.assume(a)
        selfv = interp.build_sym(st, inst['sig']['inputs'][0], ('rx',))
        pkt = ('slice', (('heap', enc.bufname), ()), K(USIZE, 0), length)
        return [selfv, pkt]
    return an.run_custom(dkey, make, label='decode(%s)' % enc.entry)


def run(chk):
    an, prog = chk.an, chk.an.prog
    chk.explanation = (
        'Summary composition, no execution: for every Ok leaf of every encoder (17 request encoders, 6 response encoders, '
        'vendor_defined PCI/IANA, the PCI / IANA / SPDM / secured packet writers at both implementors with and without an extra '
        'header) decode_packet is interpreted with its `packet` parameter bound to that leaf\'s abstract output buffer (cells, '
        'verbatim-copied regions of symbolic length, the PEC term) of length exactly the returned length, under the leaf\'s guard. '
        'All arguments stay symbolic, so one composition covers every address, parameter value, UUID, vendor ID, body and length. '
        'C01.a/b/c/d: the composition must have exactly one feasible outcome for a request / vendor / SPDM packet and for a '
        'Success response: Ok with the message type encoded and the payload view [9+h, len-1) of that very buffer (h = 0, 2, 3), '
        'which ends immediately before the PEC; this exercises the decoder\'s validators, its PEC comparison (by term identity '
        'with the encoder\'s PEC) and both length tables against what the encoder really emits. C01.e: for a response encoded '
        'with completion code c in 1..5 the only outcome is the unsuccessful-completion error carrying variant c.')
    chk.rules_text = 'R-agree by composing encoder summaries with the decoder (abstract interpretation on the abstract output buffer)'
    chk.assumptions = ['the generic control-message writer (generate_control_packet_bytes with caller-supplied raw control header) is exercised through the 23 control encoders, not with arbitrary header bytes',
                       'SPDM writer with message_type SpdmOverMctp or SecuredMessages (the two types the API documents)',
                       'equality of the PEC on both sides is term identity (same routine, same view), not CRC arithmetic']
    encs, rows = enc_rules.analysed(chk, 'C01.a-d')
    n = 0
    n_leaves = 0
    for enc, lf, know, length, ordered, why in rows:
        cases = [((), None)]
        if enc.kind == 'generic':
            continue
        if enc.kind == 'writer':
            mt = commands.MESSAGE_TYPE_OF_WRITER[enc.api]
            if mt == 0x00:
                continue
            if not isinstance(mt, int):
                leaf = enc.enum_leaf(mt[1])
                t = mk_lin(leaf[2], 0, {leaf: 1})
                cases = [((mk_cmp('Eq', t, K(leaf[2], v))[1],), v) for v in (0x05, 0x06)]
        if enc.kind == 'response':
            leaf = enc.enum_leaf('completion_code')
            t = mk_lin(leaf[2], 0, {leaf: 1})
            cases = [((mk_cmp('Eq', t, K(leaf[2], v))[1],), v) for v in range(6)]
        for atoms, case in cases:
            n += 1
            sub = '%s%s' % (enc_rules.leaf_id(enc, lf), '' if case is None else ' case %s' % case)
            try:
                dleaves, dna = compose(chk, enc, lf, atoms)
            except Infeasible:
                continue
            n_leaves += len(dleaves)
            chk.evals(len(dleaves))
            site = enc.inst['span']['at']
            if enc.kind == 'response' and case not in (0, None):
                want_name = decode_ref.CC_NAME[case]
                ok = len(dleaves) == 1 and dleaves[0].kind == 'return' and \
                    describe_result(prog, dleaves[0].value) == ('Err', 'MCtpControl', ('ControlMessage', 'UnsuccessfulCompletionCode', want_name))
                got = '; '.join(outcome_text(prog, d) for d in dleaves)
                chk.ob('C01.e', sub, ok, chk.key(enc.entry, 'C01.e', enc.key, 'cc=%d:decodes-to:%s' % (case, got[:100])),
                       'a %s response encoded with completion code %s decodes to %s, expected the unsuccessful-completion error carrying %s' % (
                           enc.api, want_name, got, want_name), site=site,
                       detail={'encoder_leaf': dump_leaf(lf, prog), 'decoder_leaves': [dump_leaf(d, prog, dna) for d in dleaves]})
                continue
            mt, off = expected_type(enc, lf) if case is None or enc.kind == 'response' else (case, 9)
            if mt is None:
                chk.ob('C01.a', sub, False, chk.key(enc.entry, 'C01.a', enc.key, 'no-expected-type'),
                       'cannot tell which message type %s encodes on this path' % enc.key, site=site)
                continue
            want_type = decode_ref.SUPPORTED[mt]
            c0, ts = lin_of(length)
            ok = len(dleaves) == 1 and dleaves[0].kind == 'return' and is_ok(prog, dleaves[0].value)
            got = '; '.join(outcome_text(prog, d) for d in dleaves)
            construct = 'decodes-to:%s' % got[:120]
            if ok:
                pay = dleaves[0].value[3][0]
                dk = dleaves[0].know
                ok_t = pay[0] == 'tuple' and pay[1][0][0] == 'adt' and variant_name(prog, pay[1][0]) == want_type
                sl = pay[1][1]
                ok_v = sl[0] == 'slice' and sl[1] == (('heap', enc.bufname), ()) and eq_under(dk, sl[2], K(USIZE, off)) is True and \
                    eq_under(dk, sl[3], mk_lin(USIZE, c0 - 1, ts)) is True
                ok = ok_t and ok_v
                if not ok_t:
                    construct = 'type:expected=%s:actual=%s' % (want_type, show_value(pay[1][0], prog))
                elif not ok_v:
                    construct = 'view:expected=[%d,len-1):actual=[%s,%s)' % (off, show_term(simp(dk, sl[2])), show_term(simp(dk, sl[3])))
            chk.ob('C01.a-d', sub, ok, chk.key(enc.entry, 'C01.a-d', enc.key, construct),
                   'the packet %s encodes is decoded as %s; expected Ok((%s, &packet[%d..len-1]))' % (enc.key, got, want_type, off),
                   site=site, detail={'encoder_leaf': dump_leaf(lf, prog), 'decoder_leaves': [dump_leaf(d, prog, dna) for d in dleaves]})
    chk.extra['compositions'] = n
    chk.extra['decoder_leaves_in_compositions'] = n_leaves
    chk.floor('encoder leaf x case compositions (plus reported unanalysable paths)', n + getattr(chk, 'unanalysable', 0), 150)


def outcome_text(prog, d):
    if d.kind == 'return':
        return show_value(d.value, prog)
    return '%s (%s)' % (d.kind, d.panic[1])
