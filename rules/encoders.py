"""Shared analysis of the packet encoders against the reference layouts (spec/commands.py)."""
from common import *
from entries import len_term, len_leaf
from terms import show_name
import commands
import enums


class Enc:
    """One analysed encoder entry point."""

    def __init__(self, an, entry):
        self.an = an
        self.prog = an.prog
        self.entry = entry
        parts = entry.split('.')
        self.tag = parts[0]                 # req | resp | gen
        self.key = an.entries[entry]['key']
        self.inst = self.prog.instances[self.key]
        names = dict((a, n) for a, n in self.inst['body']['names'])
        self.params = {}
        for i, ty in enumerate(self.inst['sig']['inputs']):
            self.params[names.get(i + 1, 'arg%d' % (i + 1))] = ty
        if self.tag == 'gen':
            self.half, self.api, self.hdr = parts[1], parts[2], parts[3]
        else:
            self.half = 'Req' if self.tag == 'req' else 'Resp'
            self.api = parts[1]
            self.hdr = None
        self.bufname = 'buf'
        self.spec = None
        self.kind = None
        if self.tag == 'req':
            if self.api in commands.REQUESTS:
                self.kind, self.spec = 'request', commands.REQUESTS[self.api]
            elif self.api in commands.STUBS:
                self.kind = 'stub'
            elif self.api == 'vendor_defined':
                self.kind = 'vendor'
        elif self.tag == 'resp':
            if self.api in commands.RESPONSES:
                self.kind, self.spec = 'response', commands.RESPONSES[self.api]
        elif self.tag == 'gen':
            if self.api in commands.MESSAGE_TYPE_OF_WRITER:
                self.kind = 'writer'
        if self.kind is None and self.tag in ('req', 'resp'):
            # a public encoder the reference tables do not know (new API function): the properties that quantify over
            # "every encoder" (PEC, framing, exact writes, no panic) still apply; the per-command body layouts cannot
            self.kind = 'generic'
        self._leaves = None

    def leaves(self):
        if self._leaves is None:
            self._leaves = self.an.leaves(self.entry)
        return self._leaves

    # ------------------------------------------------------------ symbols
    def u8(self, *name):
        return in_term(*name)

    def enum_leaf(self, name):
        ty = self.params[name]
        adt = self.prog.adt(ty)
        dom = tuple(sorted(int(v['discr']) for v in adt['variants']))
        return ('in', (name,), adt['discr_ty']['bits'], dom)

    def enum_u8(self, name):
        leaf = self.enum_leaf(name)
        return cast_bits(mk_lin(leaf[2], 0, {leaf: 1}), 8, False)

    def own_address(self):
        return in_term('self', 'address')

    def dest(self):
        return in_term('dest_addr')

    def ok_leaves(self):
        leaves, na = self.leaves()
        return [lf for lf in leaves if lf.kind == 'return' and is_ok(self.prog, lf.value)]

    def err_leaves(self):
        leaves, na = self.leaves()
        return [lf for lf in leaves if lf.kind == 'return' and is_err(self.prog, lf.value)]

    def bad_leaves(self):
        leaves, na = self.leaves()
        return [lf for lf in leaves if lf.kind != 'return']


def discover(an):
    """All analysed encoders: every public function of the two halves that takes an output buffer,
    and the provided packet writers of the trait at both implementors."""
    out = []
    for name in sorted(an.entries):
        if name.split('.')[0] in ('req', 'resp', 'gen'):
            out.append(Enc(an, name))
    return out


# ---------------------------------------------------------------------- actual layout

def written_atoms(lf, bufname):
    """Flatten the writes of a leaf into atoms: ('cell', pos_term, value, write#) | ('copy', pos, n, src, write#)."""
    obj = lf.heap.get(bufname)
    atoms = []
    if obj is None or obj[0] != 'buf':
        return atoms
    for wi, (lo, n, content) in enumerate(obj[2]):
        if content[0] == 'cells':
            for j, c in enumerate(content[1]):
                pos = mk_lin(USIZE, *_addc(lo, j))
                atoms.append(('cell', pos, c, wi))
        elif content[0] == 'fill':
            atoms.append(('fill', lo, n, content[1], wi))
        else:
            atoms.append(('copy', lo, n, content[1], wi))
    return atoms


def _addc(t, j):
    c0, ts = lin_of(t)
    return c0 + j, ts


def beyond(know, a, length):
    """Is the written atom provably at or after offset `length`?"""
    c0, ts = lin_of(a[1])
    c1, t1 = lin_of(length)
    d = dict(ts)
    for l, c in t1.items():
        d[l] = d.get(l, 0) - c
    lo, hi = know.interval(c0 - c1, d)
    return lo >= 0


def chain(know, atoms, length, allow_beyond=False):
    """Order the written atoms as a gap-free, overlap-free chain from 0 to `length`.
    With allow_beyond, writes provably at or after `length` are set aside (another property judges them).
    -> (ordered atoms, None) or (None, reason)."""
    remaining = list(atoms)
    if allow_beyond:
        remaining = [a for a in remaining if not beyond(know, a, length)]
    cursor = K(USIZE, 0)
    ordered = []
    guard = 0
    while remaining:
        guard += 1
        if guard > 100000:
            return None, 'chain does not terminate'
        hit = [a for a in remaining if eq_under(know, a[1], cursor) is True]
        if not hit:
            if eq_under(know, cursor, length) is True:
                return None, 'bytes written outside [0, len): %s' % ', '.join('at ' + show_term(simp(know, a[1])) for a in remaining[:4])
            return None, 'no write covers offset %s (hole before the reported length %s)' % (show_term(simp(know, cursor)), show_term(simp(know, length)))
        if len(hit) > 1:
            # the same offset written more than once: the later write wins; what an earlier, *longer* write (a fill or a
            # copy over a whole region) put beyond the end of the later one is still there and stays in the list
            hit.sort(key=lambda a: a[-1])
            win = hit[-1]
            n_w = K(USIZE, 1) if win[0] == 'cell' else win[2]
            for a in hit[:-1]:
                remaining.remove(a)
                if a[0] == 'cell':
                    continue
                c0_, t0_ = lin_of(a[2])
                c1_, t1_ = lin_of(n_w)
                d_ = dict(t0_)
                for l, c in t1_.items():
                    d_[l] = d_.get(l, 0) - c
                lo_, hi_ = know.interval(c0_ - c1_, d_)
                if hi_ <= 0:
                    continue            # the earlier write is no longer than the winner: fully dead
                rest_n = mk_lin(USIZE, c0_ - c1_, d_)
                ca_, ta_ = lin_of(a[1])
                da_ = dict(ta_)
                for l, c in t1_.items():
                    da_[l] = da_.get(l, 0) + c
                rest_lo = mk_lin(USIZE, ca_ + c1_, da_)
                if a[0] == 'fill':
                    remaining.append(('fill', rest_lo, rest_n, a[3], a[4]))
                else:
                    (sb_, slo_, shi_) = a[3]
                    cs_, ts_ = lin_of(slo_)
                    ds_ = dict(ts_)
                    for l, c in t1_.items():
                        ds_[l] = ds_.get(l, 0) + c
                    remaining.append(('copy', rest_lo, rest_n, (sb_, mk_lin(USIZE, cs_ + c1_, ds_), shi_), a[4]))
            hit = [win]
        a = hit[0]
        remaining.remove(a)
        ordered.append(a)
        n = K(USIZE, 1) if a[0] == 'cell' else a[2]
        c0, ts = lin_of(cursor)
        c1, t1 = lin_of(n)
        d = dict(ts)
        for l, c in t1.items():
            d[l] = d.get(l, 0) + c
        cursor = mk_lin(USIZE, c0 + c1, d)
    if eq_under(know, cursor, length) is not True:
        return None, 'written bytes end at %s but the reported length is %s' % (show_term(simp(know, cursor)), show_term(simp(know, length)))
    return ordered, None


# ---------------------------------------------------------------------- expected layout

def field_items(enc, lf, f):
    """Expected items of one body field: list of ('cell', term) | ('copy', (heapname, lo, hi))."""
    know = lf.know
    kind = f[0]
    if kind == 'u8':
        return [('cell', enc.u8(f[1]))]
    if kind == 'enum':
        return [('cell', enc.enum_u8(f[1]))]
    if kind == 'bool':
        leaf = ('in', (f[1],), 1, None)
        return [('cell', mk_bv(8, ((leaf, 0),) + (0,) * 7))]
    if kind == 'const':
        return [('cell', K(8, f[1]))]
    if kind == 'bits':
        bits = [0] * 8
        for hi, lo, src in f[1]:
            if src[0] == 'enum':
                sb = bits_of(enc.enum_u8(src[1]))
            elif src[0] == 'bool':
                sb = ((('in', (src[1],), 1, None), 0),) + (0,) * 7
            else:
                sb = bits_of(enc.u8(src[1]))
            for k in range(hi - lo + 1):
                bits[lo + k] = sb[k]
        return [('cell', mk_bv(8, bits))]
    if kind == 'cell':
        return [('cell', in_term('self', f[1]))]
    if kind == 'array':
        return [('cell', in_term(f[1], i)) for i in range(f[2])]
    if kind == 'count':
        return [('cell', mk_lin(8, 0, {len_leaf(f[1]): 1}))]
    if kind in ('bytes', 'entries'):
        name = f[1]
        lo, hi = know.leaf_range(len_leaf(name))
        if lo == hi and lo <= 64:
            if kind == 'bytes':
                return [('cell', in_term(name, i)) for i in range(lo)]
            return [('cell', in_term(name, i, '0', b)) for i in range(lo) for b in range(f[2])]
        if kind == 'bytes':
            return [('copy', (name, K(USIZE, 0), len_term(name)))]
        raise CheckerError('entries of unpinned length')
    raise CheckerError('unknown field kind %r' % (kind,))


def header_items(enc, length, response=False, dest=None, own=None, msg_type=None):
    """Cells 0-8 of the reference packet (spec: DSP0237 SMBus header, DSP0236 transport header)."""
    dest = dest if dest is not None else enc.dest()
    own = own if own is not None else enc.own_address()
    db, ob = bits_of(dest), bits_of(own)
    c0, ts = lin_of(length)
    items = [
        ('cell', mk_bv(8, (0,) + tuple(db[0:7]))),           # 0: dest[6:0] << 1, write bit clear
        ('cell', K(8, 0x0F)),                                # 1: MCTP over SMBus command code
        ('cell', mk_lin(8, c0 - 4, ts)),                     # 2: byte count = LEN - 4, exact
        ('cell', mk_bv(8, (1,) + tuple(ob[0:7]))),           # 3: own[6:0] << 1 | 1
        ('cell', K(8, 0x01)),                                # 4: rsvd 0000, header version 0001
        ('cell', dest),                                      # 5: destination EID
        ('cell', own),                                       # 6: source EID
        ('cell', K(8, 0xC8)),                                # 7: SOM EOM seq=00 TO=1 tag=000
        ('cell', msg_type),                                  # 8: IC=0 | type
    ]
    return items


def message_type_term(enc):
    if enc.kind in ('request', 'response'):
        return K(8, 0x00)
    if enc.kind == 'writer':
        mt = commands.MESSAGE_TYPE_OF_WRITER[enc.api]
        if isinstance(mt, int):
            return K(8, mt)
        e = bits_of(enc.enum_u8(mt[1]))
        return mk_bv(8, tuple(e[0:7]) + (0,))
    return None


def expected_items(enc, lf, length):
    """Full reference packet for an Ok leaf of an encoder; -> list of items (the PEC is appended by the caller)."""
    know = lf.know
    if enc.kind == 'request':
        items = header_items(enc, length, msg_type=K(8, 0x00))
        items += [('cell', K(8, 0x80)), ('cell', K(8, enc.spec['code']))]
        for f in enc.spec['params']:
            items += field_items(enc, lf, f)
        return items
    if enc.kind == 'response':
        items = header_items(enc, length, msg_type=K(8, 0x00))
        items += [('mask', 0xE0, 0x00), ('cell', K(8, enc.spec['code'])), ('cell', enc.enum_u8('completion_code'))]
        for f in enc.spec['fields']:
            items += field_items(enc, lf, f)
        return items
    if enc.kind == 'vendor':
        fmt = know.leaf_allowed(in_leaf('format', 'format'))
        data = ('in', ('format', 'data'), 32, None)
        if fmt == frozenset([0]):
            items = header_items(enc, length, msg_type=K(8, 0x7E))
            for sh in (8, 0):
                items.append(('cell', mk_bv(8, tuple((data, sh + k) for k in range(8)))))
        elif fmt == frozenset([1]):
            items = header_items(enc, length, msg_type=K(8, 0x7F))
            for sh in (24, 16, 8, 0):
                items.append(('cell', mk_bv(8, tuple((data, sh + k) for k in range(8)))))
        else:
            return None
        items += field_items(enc, lf, ('bytes', 'msg'))
        return items
    if enc.kind == 'writer':
        items = header_items(enc, length, msg_type=message_type_term(enc))
        if enc.hdr == 'some':
            items += field_items_named(lf, ('message_header', '0'))
        items += field_items_named(lf, ('message_data',))
        return items
    return None


def field_items_named(lf, name):
    know = lf.know
    ll = ('len', name)
    lo, hi = know.leaf_range(ll)
    if lo == hi and lo <= 64:
        return [('cell', in_term(*(name + (i,)))) for i in range(lo)]
    return [('copy', (show_name(name), K(USIZE, 0), mk_lin(USIZE, 0, {ll: 1})))]


def compare(know, ordered, items):
    """Compare the ordered actual atoms (without the PEC) with the expected items.
    -> list of (index/offset description, expected text, actual text) mismatches."""
    out = []
    ai = 0
    off = 0
    for it in items:
        if ai >= len(ordered):
            out.append(('item %d' % off, show_item(know, it), 'nothing written'))
            off += 1
            continue
        a = ordered[ai]
        if it[0] == 'mask':
            # only the masked bits are constrained (Rq, D, reserved of a response's control header)
            ok_m = False
            if a[0] == 'cell':
                bits = bits_of(simp(know, a[2]))
                ok_m = all((not (it[1] >> k) & 1) or bits[k] == ((it[2] >> k) & 1) for k in range(8))
            if not ok_m:
                out.append((show_term(simp(know, a[1])), show_item(know, it), show_atom_w(know, a)))
            ai += 1
            off += 1
            continue
        if it[0] == 'cell':
            if a[0] != 'cell':
                out.append((show_term(simp(know, a[1])), show_item(know, it), 'a copied region'))
            else:
                r = eq_under(know, a[2], it[1])
                if r is not True:
                    out.append((show_term(simp(know, a[1])), show_term(simp(know, it[1])), show_term(simp(know, a[2]))))
            ai += 1
        else:
            name, lo, hi = it[1]
            if a[0] != 'copy':
                out.append((show_term(simp(know, a[1])), show_item(know, it), ('a single cell %s' % show_term(simp(know, a[2]))) if a[0] == 'cell' else 'a filled region'))
                ai += 1
            else:
                (sbase, slo, shi) = a[3]
                sname = sbase[0][1] if sbase[0][0] == 'heap' else '?'
                ok = (sname == name and not sbase[1] and eq_under(know, slo, lo) is True and eq_under(know, shi, hi) is True)
                if not ok:
                    out.append((show_term(simp(know, a[1])), show_item(know, it),
                                'copy of %s[%s..%s]' % (sname, show_term(simp(know, slo)), show_term(simp(know, shi)))))
                ai += 1
        off += 1
    if ai < len(ordered):
        for a in ordered[ai:]:
            out.append((show_term(simp(know, a[1])), 'nothing (end of the reference layout)', show_atom_w(know, a)))
    return out


def show_item(know, it):
    if it[0] == 'mask':
        return 'bits %02X = %02X' % (it[1], it[2])
    if it[0] == 'cell':
        return show_term(simp(know, it[1]))
    return 'copy of %s[%s..%s]' % (it[1][0], show_term(simp(know, it[1][1])), show_term(simp(know, it[1][2])))


def show_atom_w(know, a):
    if a[0] == 'cell':
        return show_term(simp(know, a[2]))
    if a[0] == 'copy':
        (sbase, slo, shi) = a[3]
        return 'copy of %s[%s..%s]' % (sbase[0][1] if sbase[0][0] == 'heap' else 'local', show_term(simp(know, slo)), show_term(simp(know, shi)))
    return 'a filled region'


def ok_length(prog, lf):
    return lf.value[3][0]


def pec_check(lf, know, ordered, bufname, length):
    """The last atom must be PEC over [0, len-1) of this buffer with exactly the earlier writes.
    -> None if fine, else text."""
    if not ordered:
        return 'nothing written'
    last = ordered[-1]
    if last[0] != 'cell':
        return 'the last written item is a copied region, not the PEC'
    v = last[2]
    if v[0] != 'bv':
        return 'the last byte is %s, not a PEC' % show_term(v)
    b0 = v[2][0]
    if not isinstance(b0, tuple) or b0[0][0] != 'pec' or v[2] != tuple((b0[0], i) for i in range(8)):
        return 'the last byte is %s, not a PEC' % show_term(v)
    key = b0[0][1]
    if key[0] != 'segs' or key[1] != bufname:
        return 'the PEC is computed over %s, not over this buffer' % (key[0] if key[0] != 'segs' else key[1])
    lo, hi, writes = key[2], key[3], key[4]
    if eq_under(know, lo, K(USIZE, 0)) is not True:
        return 'the PEC view starts at %s, not at the destination-address byte' % show_term(simp(know, lo))
    c0, ts = lin_of(length)
    want_hi = mk_lin(USIZE, c0 - 1, ts)
    if eq_under(know, hi, want_hi) is not True:
        return 'the PEC view ends at %s, expected %s (all bytes before the PEC)' % (show_term(simp(know, hi)), show_term(simp(know, want_hi)))
    # the writes covered by the PEC must be exactly the writes that make up the final content before it
    obj = lf.heap[bufname]
    final_before = tuple(w for i, w in enumerate(obj[2]) if i != last[3] and
                         not (i > last[3] and beyond(know, ('w', w[0]), length)))
    if tuple(writes) != final_before:
        if any(i > last[3] and not beyond(know, ('w', w[0]), length) for i, w in enumerate(obj[2])):
            return 'bytes of the packet are written after the PEC was computed'
        return 'the PEC does not cover the final content (%d writes covered, %d present)' % (len(writes), len(final_before))
    return None
