"""C06 - see enc_rules.c06"""
import enc_rules


def run(chk):
    enc_rules.c06(chk)
