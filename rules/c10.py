"""C10 - the receive path returns a result for every input instead of crashing."""
from common import *

ENTRIES = [('ctx.decode_packet', 'decoder'), ('ctx.get_length', 'length probe'), ('process_packet', 'request processor')]


def packet_class(lf):
    """Stable description of the input class of a leaf: type / rq / command / byte 11, from the guard."""
    k = lf.know
    parts = []
    for idx, name in ((8, 'type'), (9, 'hdr'), (10, 'cmd'), (11, 'b11')):
        leaf = in_leaf('packet', idx)
        if leaf in k.allowed:
            parts.append('%s=%s' % (name, allowed_desc(k, leaf)))
    return ','.join(parts)


def parse_class(cls):
    """'type=00,hdr=80-FF,cmd=15-FF' -> {'type': set, ...}"""
    out = {}
    for part in cls.split(','):
        if '=' not in part:
            continue
        name, spec = part.split('=', 1)
        if spec == 'any':
            out[name] = set(range(256))
            continue
        vals = set()
        for piece in spec.split(','):
            if '-' in piece:
                a, b = piece.split('-')
                vals |= set(range(int(a, 16), int(b, 16) + 1))
            elif piece:
                vals.add(int(piece, 16))
        out[name] = vals
    return out


def covering_known(key, known):
    """A listed finding identifies a set of inputs (function + panic + class of header bytes). A failing leaf whose input
    class lies inside the union of the listed classes of the same function and panic is the same finding (e.g. after two
    match arms with the same body were merged); anything outside is new. Returns the listed key to report under, or None."""
    if key in known:
        return key
    head, _, cls = key.rpartition(':')
    mine = parse_class_full(cls)
    if mine is None:
        return None
    cands = []
    for k in known:
        h, _, c = k.rpartition(':')
        if h == head:
            pc = parse_class_full(c)
            if pc is not None:
                cands.append((k, pc))
    if not cands:
        return None
    # every field but `cmd` must agree with some candidate; the cmd values must be covered by the union over those
    names = [n for n in mine if n != 'cmd']
    compat = [(k, pc) for k, pc in cands if all(n in pc and mine[n] <= pc[n] for n in names) and set(pc) - {'cmd'} <= set(mine)]
    if not compat:
        return None
    if 'cmd' in mine:
        union = set()
        for k, pc in compat:
            union |= pc.get('cmd', set(range(256)))
        if not mine['cmd'] <= union:
            return None
    return compat[0][0]


def parse_class_full(cls):
    if ';' in cls:
        return None
    # comma separates both fields and value lists: split on ',name='
    import re as _re
    parts = _re.split(r',(?=[a-z0-9]+=)', cls)
    out = {}
    for part in parts:
        if '=' not in part:
            return None
        name, spec = part.split('=', 1)
        vals = set()
        if spec == 'any':
            vals = set(range(256))
        else:
            for piece in spec.split(','):
                try:
                    if '-' in piece:
                        a, b = piece.split('-')
                        vals |= set(range(int(a, 16), int(b, 16) + 1))
                    else:
                        vals.add(int(piece, 16))
                except ValueError:
                    return None
        out[name] = vals
    return out


def run(chk):
    an, prog = chk.an, chk.an.prog
    known_c10 = load_known()[0].get(chk.pid, {})
    chk.explanation = (
        'decode_packet, get_length and process_packet are interpreted (dev profile: overflow and bounds assertions are '
        'explicit MIR Assert terminators) with a packet of free length (0 included) and free bytes. Every path ends in a '
        'leaf; R-panic demands that no leaf is a panic (failed Assert: bounds, overflow, division; slice-range and '
        'copy-length obligations of the slice models; calls that diverge: unwrap, unreachable!, unimplemented!) and that no '
        'leaf is unanalysable. process_packet is interpreted under the property\'s "validly configured" precondition. '
        'Each failing leaf is keyed by function + panic kind + message + input class, so a new panic is a new violation.')
    chk.rules_text = 'R-panic over all leaves of the three receive entry points; feasibility by byte-set enumeration and interval propagation, no solver'
    chk.assumptions = [
        'process_packet only: len(response_buf) >= 64, len(msg_types) <= 30, 1 <= len(vendor_ids) <= 16, every vendor_ids[i].format in {0, 1}',
        'no assumption on the packet: its length and every byte are free symbols',
        'dev profile (debug assertions and overflow checks on), as the property demands',
    ]
    total = 0
    for ent, human in ENTRIES:
        if ent not in an.entries:
            chk.ob('entry-present', ent, False, chk.key(ent, 'entry-present', ent, 'missing'), '%s not found' % ent)
            continue
        leaves, na = an.leaves(ent)
        total += len(leaves)
        for i, lf in enumerate(leaves):
            if lf.kind == 'return':
                chk.ob('R-panic', '%s leaf %d' % (ent, i), True, nontrivial=bool(lf.facts[na:]),
                       show='[%s] returns %s' % ('; '.join(guard_text(lf, na)[-3:]), show_value(lf.value, prog)[:100]))
                continue
            fn, sp = local_site(prog, lf)
            cls = packet_class(lf)
            msg = lf.panic[1]
            kind = lf.panic[0]
            if kind.startswith('call:core::panicking'):
                kind = 'panic'
            construct = '%s:%s:%s:%s' % ('panic' if lf.kind == 'panic' else 'unanalysable', kind, msg, cls)
            what = 'the %s %s (%s: %s) in %s for inputs with %s' % (
                human, 'panics' if lf.kind == 'panic' else 'cannot be analysed', kind, msg, fn.split('::')[-1], cls or '; '.join(guard_text(lf, na)[-3:]))
            key = chk.key(ent, 'R-panic', ent, construct)
            key = covering_known(key, known_c10) or key
            chk.ob('R-panic', '%s leaf %d' % (ent, i), False, key, what,
                   detail={'leaf': dump_leaf(lf, prog, na, heap=False), 'call_path': call_path(lf)}, site=sp)
    chk.floor('leaves of the receive path', total, 60)
    chk.extra['leaves_per_entry'] = dict((e, len(an.leaves(e)[0])) for e, _ in ENTRIES if e in an.entries)
