"""C07 - see enc_rules.c07"""
import enc_rules


def run(chk):
    enc_rules.c07(chk)
