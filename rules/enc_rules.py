"""Rules over the encoder leaves: C03 (PEC), C04 (framing), C05 (transport header), C06 (request bodies),
C07 (response bodies), C08 (vendor/SPDM framing), C16 (exact writes, refusals)."""
from common import *
from entries import len_term, len_leaf
import encoders as E
import commands
import enums

N_ENCODERS_FLOOR = 30     # request encoders, vendor_defined, response encoders, 4 writers x 2 halves x {None, Some}


def in_scope(enc):
    return enc.kind in ('request', 'response', 'vendor', 'writer', 'generic')


def analysed(chk, rule='encoder', kinds=None, report=True):
    """All encoders with their Ok leaves analysed once: [(enc, lf, know, length, ordered|None, why)]"""
    an = chk.an
    encs = E.discover(an)
    rows = []
    for enc in encs:
        if enc.kind is None:
            chk.ob('reference-present', enc.entry, False,
                   chk.key(enc.entry, 'reference-present', enc.key, 'no-reference-layout'),
                   'public encoder %s has no reference layout in spec/commands.py (new API function?)' % enc.key, site=enc.inst['span']['at'])
            continue
        if enc.kind == 'stub':
            continue
        if enc.kind == 'generic':
            noted = chk.extra.setdefault('encoders_without_reference_layout', [])
            if enc.key not in noted:
                noted.append(enc.key)
                print('note: public encoder %s has no reference layout in spec/commands.py: the per-encoder rules (PEC, framing, exact writes, no panic) are applied, the per-command body rules are not' % enc.key)
            if kinds is not None:
                continue
        for lf in enc.bad_leaves():
            if lf.kind == 'unanalysable' and report and (kinds is None or enc.kind in kinds):
                fn, sp = local_site(an.prog, lf)
                chk.unanalysable = getattr(chk, 'unanalysable', 0) + 1
                chk.ob(rule, '%s (unanalysable path)' % enc.entry, False,
                       chk.key(enc.entry, rule, fn, 'cannot-certify:' + lf.panic[1][:120]),
                       'cannot certify %s: a path of the encoder cannot be analysed (%s)' % (enc.key, lf.panic[1]), site=sp,
                       detail={'leaf': dump_leaf(lf, an.prog, heap=False), 'call_path': call_path(lf)})
        for lf in enc.ok_leaves():
            length = E.ok_length(an.prog, lf)
            atoms = E.written_atoms(lf, enc.bufname)
            ordered, why = E.chain(lf.know, atoms, length)
            rows.append((enc, lf, lf.know, length, ordered, why))
    return encs, rows


def leaf_id(enc, lf):
    leaves, na = enc.leaves()
    return '%s#%d' % (enc.entry, leaves.index(lf))


def site_of(enc, lf=None):
    return enc.inst['span']['at']


def cell_rule(chk, rule, enc, lf, know, ordered, items, idxs, what):
    """Compare the expected items at the given item indexes with the ordered atoms at the same indexes."""
    for i in idxs:
        if i >= len(items):
            continue
        it = items[i]
        ok = False
        got = 'nothing written'
        if i < len(ordered):
            a = ordered[i]
            if it[0] == 'cell' and a[0] == 'cell':
                ok = eq_under(know, a[2], it[1]) is True
                got = show_term(simp(know, a[2]))
            elif it[0] == 'copy' and a[0] == 'copy':
                ok = not E.compare(know, [a], [it])
                got = 'copy of %s[%s..%s]' % (a[3][0][0][1], show_term(simp(know, a[3][1])), show_term(simp(know, a[3][2])))
            else:
                got = 'a copied region' if a[0] == 'copy' else show_term(simp(know, a[2]))
        exp = E.show_item(know, it)
        chk.evals()
        chk.ob(rule, '%s item %d' % (leaf_id(enc, lf), i), ok,
               chk.key(enc.entry, rule, enc.key, 'cell:%d:expected=%s:actual=%s' % (i, exp, got)),
               '%s: byte %d of the packet %s encodes is %s, expected %s (%s)' % (what, i, enc.key, got, exp, '; '.join(guard_text(lf)[:3])),
               site=site_of(enc), detail={'leaf': dump_leaf(lf, chk.an.prog)},
               show='%s, byte %d of the packet: derived %s == reference %s' % (enc.entry, i, got, exp))


def need_chain(chk, rule, enc, lf, ordered, why):
    if ordered is None:
        chk.ob(rule, leaf_id(enc, lf), False,
               chk.key(enc.entry, rule, enc.key, 'layout:' + (why or '?')),
               'cannot lay out the bytes %s writes: %s' % (enc.key, why), site=site_of(enc),
               detail={'leaf': dump_leaf(lf, chk.an.prog)})
        return False
    return True


# ------------------------------------------------------------------------------ C03

def c03(chk):
    RULE = 'C03'
    an, prog = chk.an, chk.an.prog
    chk.explanation = (
        'Every encoder (17 request encoders, vendor_defined, 6 response encoders, the four generate_*_packet_bytes writers at '
        'both implementors, with and without an extra header) is interpreted with symbolic arguments and a symbolic output '
        'buffer. On every Ok leaf the written bytes are ordered into a gap-free chain; C03.a: the last byte is the result of '
        'smbus_pec::pec over the view [0, len-1) of this same buffer, computed when exactly the final content was in place '
        '(no byte written afterwards), and the returned length ends right after it. C03.b (funnel): smbus_pec::pec is the '
        'resolved callee at every call site of the dependency (no other routine of it is used). C03.d: the same PEC rule on every response process_packet generates. The thorough tier also checks the PEC routine\'s '
        'structural parameters in its MIR and the Cargo.lock pin.')
    chk.rules_text = 'R-layout on the last written byte of every Ok leaf; who-may-call rule on smbus_pec::pec'
    chk.assumptions = ['quick tier: smbus_pec::pec is an uninterpreted function of the bytes it is given (which routine, over which bytes); thorough tier: its per-byte step is shown equal to CRC-8/0x07 on all 256 values and its loop skeleton is read from MIR (C03.c, C03.e)']
    encs, rows = analysed(chk, 'C03.a')
    n = 0
    for enc, lf, know, length, ordered, why in rows:
        n += 1
        if not need_chain(chk, 'C03.a', enc, lf, ordered, why):
            continue
        bad = E.pec_check(lf, know, ordered, enc.bufname, length)
        chk.evals()
        chk.ob('C03.a', leaf_id(enc, lf), bad is None,
               chk.key(enc.entry, 'C03.a', enc.key, 'pec:' + str(bad)),
               'packet encoded by %s does not end with the PEC of all preceding bytes: %s' % (enc.key, bad),
               site=site_of(enc), detail={'leaf': dump_leaf(lf, prog)},
               show='last byte written at offset %s is %s; returned length %s' % ( show_term(simp(know, ordered[-1][1])), E.show_atom_w(know, ordered[-1]), show_term(simp(know, length))))
    chk.floor('encoder Ok leaves (plus reported unanalysable paths)', n + getattr(chk, 'unanalysable', 0), 40)
    chk.floor('encoders analysed', len([e for e in encs if in_scope(e)]), N_ENCODERS_FLOOR)
    # funnel: call sites of the pec routine in the crate
    sites = []
    for key, inst in prog.instances.items():
        if not inst['local']:
            continue
        for b in inst['body']['blocks']:
            t = b['term']
            if t['k'] == 'call' and t['callee']['crate'] == 'smbus_pec':
                sites.append((key, t['callee']['path'], b['span']['at']))
    chk.ob('C03.b', 'call sites of the PEC routine', all(s[1] == 'smbus_pec::pec' for s in sites) and len(sites) >= 1,
           chk.key('crate', 'C03.b', 'smbus_pec', 'callee:' + ','.join(sorted(set(s[1] for s in sites)))),
           'PEC is computed by %s, expected smbus_pec::pec' % sorted(set(s[1] for s in sites)))
    chk.extra['pec_call_sites'] = [list(s) for s in sites]
    # C03.d: the responses process_packet generates are encoded packets too
    import proc_rules
    prows, pna = proc_rules.proc_rows(chk)
    nresp = proc_rules.report_unanalysable(chk, 'C03.d', prows, pna)
    for r in prows:
        if not r.responds:
            continue
        nresp += 1
        ordered, why = proc_rules.resp_chain(r)
        bad = why if ordered is None else E.pec_check(r.lf, r.lf.know, ordered, proc_rules.BUF, r.resp_len)
        chk.evals()
        chk.ob('C03.d', r.sub, bad is None,
               chk.key(proc_rules.ENT, 'C03.d', r.fn, 'pec:cmd=%s:%s' % (allowed_desc(r.lf.know, in_leaf('packet', 10)), bad)),
               'the response process_packet generates (command %s) does not end with the PEC of all its preceding bytes: %s' % (
                   allowed_desc(r.lf.know, in_leaf('packet', 10)), bad), site=r.sp, detail={'leaf': dump_leaf(r.lf, prog, pna)})
    chk.floor('responding leaves of process_packet (plus reported unanalysable paths)', nresp, 20)
    if chk.tier == 'thorough':
        import pec_params
        pec_params.check(chk)


# ------------------------------------------------------------------------------ C04

def c04(chk):
    RULE = 'C04'
    an, prog = chk.an, chk.an.prog
    chk.explanation = (
        'On every Ok leaf of every encoder: C04.a bytes 0-3 equal the reference (dest[6:0]<<1 with bit 0 clear, 0x0F, byte '
        'count, own[6:0]<<1|1), compared bit by bit in canonical form, so all 128x128 address pairs are covered at once; '
        'C04.b the byte-count byte equals len-4 EXACTLY - a narrowing cast that is not provably lossless under the leaf\'s '
        'guard survives canonicalisation as trunc8(..) and is reported; C04.c the returned length is the end of the chain of '
        'written bytes; C04.d substituting bytes 1-2 into the leaves of get_length selects its Ok leaf and yields the same '
        'length; C04.e every Err leaf of the unbounded writers has a guard that puts the byte count above 255 or is another '
        'documented refusal, i.e. oversize input is refused, not truncated.')
    chk.rules_text = 'R-layout (bit level) on cells 0-3, Lin identity on the length, R-agree with the length probe, R-class on refusals'
    chk.assumptions = ['addresses are the low 7 bits of the u8 arguments (the template masks them by construction)']
    encs, rows = analysed(chk, 'C04.a')
    probe, pna = an.leaves('ctx.get_length')
    probe_ok = describe_probe_ok(prog, probe)
    probe_b2 = probe_ok_counts(prog, probe)
    n = 0
    for enc, lf, know, length, ordered, why in rows:
        n += 1
        if not need_chain(chk, 'C04.c', enc, lf, ordered, why):
            continue
        chk.ob('C04.c', leaf_id(enc, lf), True)
        items = E.header_items(enc, length, msg_type=E.message_type_term(enc) if enc.kind != 'vendor' else K(8, 0))
        cell_rule(chk, 'C04.a', enc, lf, know, ordered, items, [0, 1, 3], 'SMBus framing')
        cell_rule(chk, 'C04.b', enc, lf, know, ordered, items, [2], 'SMBus byte count')
        # byte count range: len - 4 in [0, 255]
        c0, ts = lin_of(length)
        lo, hi = know.interval(c0, ts)
        chk.ob('C04.b', '%s length range' % leaf_id(enc, lf), lo >= 4 and hi <= 259,
               chk.key(enc.entry, 'C04.b', enc.key, 'range:%d..%d' % (lo, min(hi, 1 << 40))),
               '%s returns Ok for packets of %d..%s bytes; the one-byte SMBus byte count only fits 4..259' % (enc.key, lo, hi if hi < (1 << 40) else 'unbounded'),
               site=site_of(enc), detail={'leaf': dump_leaf(lf, prog)})
        # C04.d agreement with the probe on EVERY prefix of >= 3 bytes: the encoder's bytes are substituted into the guard of
        # every probe leaf; a leaf the prefix can reach must return Ok(len)
        bad_probe = probe_disagreement(prog, probe, pna, know, ordered, length)
        chk.evals(len(probe))
        chk.ob('C04.d', leaf_id(enc, lf), bad_probe is None,
               chk.key(enc.entry, 'C04.d', enc.key, 'probe-disagrees:' + str(bad_probe)[:80]),
               'get_length on a prefix of the packet %s encodes does not return the encoded length %s: %s' % (enc.key, show_term(simp(know, length)), bad_probe),
               site=site_of(enc))
    # C04.e refusals of the unbounded writers
    for enc in encs:
        if enc.kind not in ('vendor', 'writer'):
            continue
        for lf in enc.err_leaves():
            why = refusal_reason(enc, lf)
            chk.evals()
            chk.ob('C04.e', leaf_id(enc, lf), why is not None,
                   chk.key(enc.entry, 'C04.e', enc.key, 'undocumented-refusal:' + ';'.join(guard_text(lf)[-2:])),
                   '%s refuses input for an undocumented reason: %s' % (enc.key, '; '.join(guard_text(lf))), site=site_of(enc),
                   detail={'leaf': dump_leaf(lf, prog)})
    chk.floor('encoder Ok leaves (plus reported unanalysable paths)', n + getattr(chk, 'unanalysable', 0), 40)


def describe_probe_ok(prog, probe):
    """Byte-1 values for which the probe (on >= 3 bytes) returns Ok(U(packet[2]) + 4); None if its Ok leaf differs."""
    want = mk_lin(USIZE, 4, {in_leaf('packet', 2): 1})
    ge3 = mk_cmp('Ge', len_term('packet'), K(USIZE, 3))[1]
    vals = set()
    for plf in probe:
        if plf.kind != 'return' or feasible_with(plf, [ge3]) is None:
            continue
        res = describe_result(prog, plf.value)
        if res[0] == 'Ok':
            if eq_under(plf.know, res[1], want) is not True:
                return None
            vals |= set(plf.know.leaf_allowed(in_leaf('packet', 1)))
    return vals


def probe_disagreement(prog, probe, pna, know, ordered, length):
    """None if every probe leaf that some prefix (>= 3 bytes) of the encoded packet can reach returns Ok(len)."""
    ge3 = mk_cmp('Ge', len_term('packet'), K(USIZE, 3))[1]
    c0, ts = lin_of(length)
    for plf in probe:
        pk = feasible_with(plf, [ge3])
        if pk is None:
            continue
        # the prefix is at most the whole packet: len(prefix) <= len. Only constant lengths can be compared.
        reachable = True
        subst = {}
        for a in plf.facts[pna:]:
            ls = atom_leaves(a)
            env = {}
            decided = True
            for l in ls:
                if l[0] == 'in' and l[1] and l[1][0] == 'packet' and isinstance(l[1][1], int):
                    i = l[1][1]
                    cell = simp(know, ordered[i][2]) if i < len(ordered) and ordered[i][0] == 'cell' else None
                    if cell is None:
                        decided = False
                    elif is_const(cell):
                        env[l] = cell[2]
                    elif l[1][1] == 2:
                        decided = False      # the byte count: handled through its range below
                    else:
                        decided = False
                elif l == ('len', ('packet',)):
                    decided = False
                else:
                    decided = False
            if decided:
                try:
                    if not eval_atom(a, env):
                        reachable = False
                        break
                except CannotEval:
                    pass
        if not reachable:
            continue
        # byte-count range against the leaf's allowed values of byte 2
        b2 = simp(know, ordered[2][2]) if len(ordered) > 2 and ordered[2][0] == 'cell' else None
        if b2 is not None:
            c2, t2 = lin_of(b2)
            lo2, hi2 = know.interval(c2, t2)
            al2 = pk.leaf_allowed(in_leaf('packet', 2))
            if al2 is not None and not any(lo2 <= v <= hi2 for v in al2):
                continue
        if plf.kind != 'return':
            return 'the probe %s (%s) on such a prefix' % ('panics' if plf.kind == 'panic' else 'cannot be analysed', plf.panic[1][:80])
        res = describe_result(prog, plf.value)
        if res[0] != 'Ok':
            return 'a prefix with [%s] gives %s' % ('; '.join(show_atom(a) for a in plf.facts[pna:])[:160], show_value(plf.value, prog))
        want = mk_lin(USIZE, 4, {in_leaf('packet', 2): 1})
        if eq_under(pk, res[1], want) is not True:
            return 'the probe returns %s' % show_term(res[1])
        if b2 is not None:
            if eq_under(know, mk_lin(USIZE, c2 + 4, t2), length) is not True:
                return 'byte count + 4 is not the encoded length'
            al2 = pk.leaf_allowed(in_leaf('packet', 2))
            # every value of the byte count must be inside SOME Ok leaf: checked by the union below
    # union of byte-2 values over the Ok leaves must cover the byte count's range
    b2 = simp(know, ordered[2][2]) if len(ordered) > 2 and ordered[2][0] == 'cell' else None
    if b2 is None:
        return 'byte 2 of the packet is not a single cell'
    c2, t2 = lin_of(b2)
    lo2, hi2 = know.interval(c2, t2)
    okvals = probe_ok_counts(prog, probe)
    if not (0 <= lo2 and hi2 <= 255 and all(v in okvals for v in range(lo2, hi2 + 1))):
        return 'byte counts %d..%d are not all answered with Ok' % (lo2, hi2)
    b1 = simp(know, ordered[1][2]) if ordered[1][0] == 'cell' else None
    if b1 is None or not is_const(b1) or b1[2] != 0x0F:
        return 'byte 1 is not the command code 0x0F'
    return None


def probe_ok_counts(prog, probe):
    """Byte-2 values for which the probe (byte 1 = 0x0F, >= 3 bytes) returns Ok."""
    ge3 = mk_cmp('Ge', len_term('packet'), K(USIZE, 3))[1]
    vals = set()
    for plf in probe:
        if plf.kind != 'return' or feasible_with(plf, [ge3]) is None:
            continue
        if describe_result(prog, plf.value)[0] == 'Ok' and 0x0F in plf.know.leaf_allowed(in_leaf('packet', 1)):
            vals |= set(plf.know.leaf_allowed(in_leaf('packet', 2)))
    return vals


def expected_length(enc, lf):
    """Reference packet length as a linear term in the argument lengths (None if it is a small constant)."""
    if enc.kind == 'vendor':
        fmt = lf.know.leaf_allowed(in_leaf('format', 'format'))
        if fmt == frozenset([0]):
            return mk_lin(USIZE, 12, {len_leaf('msg'): 1})
        if fmt == frozenset([1]):
            return mk_lin(USIZE, 14, {len_leaf('msg'): 1})
        return None
    if enc.kind == 'writer':
        t = {('len', ('message_data',)): 1}
        if enc.hdr == 'some':
            t[('len', ('message_header', '0'))] = 1
        return mk_lin(USIZE, 10, t)
    return None


def refusal_reason(enc, lf):
    """Which documented refusal an Err leaf's guard implies, or None."""
    know = lf.know
    if enc.kind == 'vendor':
        fmt = know.leaf_allowed(in_leaf('format', 'format'))
        if fmt is not None and not (fmt & frozenset([0, 1])):
            return 'vendor ID format other than PCI (0) / IANA (1)'
    el = expected_length(enc, lf)
    if el is not None:
        c0, ts = lin_of(el)
        lo, hi = know.interval(c0, ts)
        if lo > 259:
            return 'message too large for the one-byte SMBus byte count'
    for r in (enc.spec or {}).get('refuse', []):
        if r[0] == 'u8-in':
            al = know.leaf_allowed(in_leaf(r[1]))
            if al is not None and al <= frozenset(r[2]):
                return '%s is a reserved value' % r[1]
        if r[0] == 'count-gt':
            lo, hi = know.leaf_range(len_leaf(r[1]))
            if lo > r[2]:
                return 'more than %d %s' % (r[2], r[1])
    return None


# ------------------------------------------------------------------------------ C05

def c05(chk):
    RULE = 'C05'
    an, prog = chk.an, chk.an.prog
    chk.explanation = (
        'R-layout on bytes 4-8 of every Ok leaf of every encoder, bit by bit: 0x01 (reserved 0, version 1); the full 8 bits '
        'of the destination argument; the context\'s own address (the same symbol as in byte 3); SOM 1, EOM 1, sequence 0 '
        '(and TO 1, tag 0 for requests, vendor and SPDM writers; for response encoders only the top four bits are '
        'constrained, as the statement says); IC bit 0 with the 7-bit type of the API used. C05.d: the same on every response process_packet generates.')
    chk.rules_text = 'R-layout (bit level) on cells 4-8; all arguments symbolic'
    encs, rows = analysed(chk, 'C05')
    n = 0
    for enc, lf, know, length, ordered, why in rows:
        n += 1
        if not need_chain(chk, 'C05', enc, lf, ordered, why):
            continue
        if enc.kind == 'vendor':
            fmt = know.leaf_allowed(in_leaf('format', 'format'))
            mt = K(8, 0x7E) if fmt == frozenset([0]) else (K(8, 0x7F) if fmt == frozenset([1]) else None)
            if mt is None:
                chk.ob('C05', leaf_id(enc, lf), False, chk.key(enc.entry, 'C05', enc.key, 'vendor-format-not-pinned'),
                       'vendor_defined succeeds for a format value that is neither 0 nor 1', site=site_of(enc))
                continue
        else:
            mt = E.message_type_term(enc)
        items = E.header_items(enc, length, msg_type=mt)
        if enc.kind in ('response', 'generic'):
            # only SOM/EOM/seq are required of responses: compare the top four bits
            cell_rule(chk, 'C05', enc, lf, know, ordered, items, [4, 5, 6, 8] if enc.kind == 'response' else [4, 5, 6], 'transport header')
            a = ordered[7] if len(ordered) > 7 else None
            ok = a is not None and a[0] == 'cell' and tuple(bits_of(simp(know, a[2]))[4:8]) == (0, 0, 1, 1)
            chk.ob('C05', '%s item 7' % leaf_id(enc, lf), ok,
                   chk.key(enc.entry, 'C05', enc.key, 'cell:7:flags'),
                   'response encoded by %s does not carry SOM=1 EOM=1 seq=0 in byte 7' % enc.key, site=site_of(enc))
        else:
            cell_rule(chk, 'C05', enc, lf, know, ordered, items, [4, 5, 6, 7, 8], 'transport header')
    # C05.d: the responses process_packet generates
    import proc_rules
    prows, pna = proc_rules.proc_rows(chk)
    nresp = proc_rules.report_unanalysable(chk, 'C05.d', prows, pna)
    for r in prows:
        if not r.responds:
            continue
        nresp += 1
        k2 = r.lf.know
        ordered2, why2 = proc_rules.resp_chain(r)
        if ordered2 is None:
            chk.ob('C05.d', r.sub, False, chk.key(proc_rules.ENT, 'C05.d', r.fn, 'layout:' + str(why2)[:80]),
                   'cannot lay out the response: %s' % why2, site=r.sp)
            continue
        exp = [K(8, 0x01), in_term('packet', 6), in_term('self', 'response', 'address'), None, K(8, 0x00)]
        problems = []
        for j, e in enumerate(exp):
            a = proc_rules.cellval(ordered2, 4 + j)
            if j == 3:
                okj = a is not None and tuple(bits_of(simp(k2, a))[4:8]) == (0, 0, 1, 1)
            else:
                okj = a is not None and eq_under(k2, a, e) is True
            if not okj:
                problems.append('byte %d is %s' % (4 + j, show_term(simp(k2, a)) if a is not None else 'missing'))
        chk.evals(5)
        chk.ob('C05.d', r.sub, not problems,
               chk.key(proc_rules.ENT, 'C05.d', r.fn, 'transport:cmd=%s:%s' % (allowed_desc(k2, in_leaf('packet', 10)), ';'.join(problems)[:100])),
               'the response process_packet generates (command %s) has a wrong transport header / type byte: %s' % (
                   allowed_desc(k2, in_leaf('packet', 10)), '; '.join(problems)), site=r.sp, detail={'leaf': dump_leaf(r.lf, prog, pna)})
    chk.floor('responding leaves of process_packet (plus reported unanalysable paths)', nresp, 20)
    chk.floor('encoder Ok leaves (plus reported unanalysable paths)', n + getattr(chk, 'unanalysable', 0), 40)


# ------------------------------------------------------------------------------ C06 / C07 / C08

def body_rule(chk, rule, kinds, what):
    an, prog = chk.an, chk.an.prog
    encs, rows = analysed(chk, rule, kinds=kinds)
    n = 0
    seen = set()
    for enc, lf, know, length, ordered, why in rows:
        if enc.kind not in kinds:
            continue
        n += 1
        seen.add(enc.entry)
        if not need_chain(chk, rule, enc, lf, ordered, why):
            continue
        items = E.expected_items(enc, lf, length)
        if items is None:
            chk.ob(rule, leaf_id(enc, lf), False, chk.key(enc.entry, rule, enc.key, 'no-expected-layout'),
                   '%s succeeds on a path the reference layout does not describe: %s' % (enc.key, '; '.join(guard_text(lf))), site=site_of(enc))
            continue
        body_exp = items[9:]
        body_act = ordered[9:-1]
        mism = E.compare(know, body_act, body_exp)
        chk.evals(max(1, len(body_exp)))
        for (where, exp, got) in mism:
            chk.ob(rule, '%s body at %s' % (leaf_id(enc, lf), where), False,
                   chk.key(enc.entry, rule, enc.key, 'body:%s:expected=%s:actual=%s' % (where, exp, got)),
                   '%s: byte %s of the packet %s encodes is %s, expected %s' % (what, where, enc.key, got, exp),
                   site=site_of(enc), detail={'leaf': dump_leaf(lf, prog)})
        if not mism:
            chk.ob(rule, '%s body' % leaf_id(enc, lf), True,
                   show='under [%s] bytes 9.. are [%s] == reference [%s], then the PEC' % (
                       '; '.join(guard_text(lf)[:2]), ' '.join(E.show_atom_w(know, a) for a in body_act[:12]), ' '.join(E.show_item(know, it) for it in body_exp[:12])))
    return encs, n, seen


def enum_tables(chk, rule):
    """The numeric values of the argument enumerations that go on the wire."""
    prog = chk.an.prog
    for adt_id, table in sorted(enums.ARGUMENT_ENUMS.items()):
        adt = prog.adts.get(adt_id)
        if adt is None:
            continue
        declared = dict((v['name'], int(v['discr'])) for v in adt['variants'])
        for name, val in sorted(table.items()):
            chk.ob(rule + '.enum', '%s::%s' % (adt_id, name), declared.get(name) == val,
                   chk.key('crate', rule + '.enum', adt_id, 'table:%s:expected=%s:actual=%s' % (name, val, declared.get(name))),
                   'argument enumeration %s::%s has wire value %s, DSP0236 assigns %s' % (adt_id, name, declared.get(name), val))
        for name in declared:
            if name not in table:
                chk.ob(rule + '.enum', '%s::%s' % (adt_id, name), False,
                       chk.key('crate', rule + '.enum', adt_id, 'extra-variant:%s' % name),
                       'argument enumeration %s has a variant %s with no reference value' % (adt_id, name))


def c06(chk):
    chk.explanation = (
        'For each of the 17 control request encoders (keyed by public name in spec/commands.py, DSP0236 clause 12) the body of '
        'every Ok leaf is compared item by item with the reference: byte 9 = 0x80 (Rq 1, D 0, reserved 0, instance 0), byte 10 '
        '= the DSP0236 code of THAT command, then exactly its parameters in wire order - each the full 8 bits of the argument '
        'symbol, or the numeric value of an enum argument, the 16 UUID bytes, the entry count and each entry\'s four bytes (the '
        'entry count is case-split 0..7 by the interpreter) - followed immediately by the PEC, i.e. nothing else. The wire '
        'values of the argument enumerations are compared with the reference table.')
    chk.rules_text = 'R-layout on cells 9..len-2 of each request encoder; table agreement on argument enumerations'
    encs, n, seen = body_rule(chk, 'C06', ('request',), 'control request body')
    enum_tables(chk, 'C06')
    for api in commands.REQUESTS:
        chk.ob('C06.present', 'req.' + api, ('req.' + api) in seen,
               chk.key('req.' + api, 'C06.present', api, 'encoder-missing-or-never-succeeds'),
               'request encoder %s was not found or has no succeeding path' % api)
    totality(chk, 'C06.total', ('request',), encs, 'request body')
    chk.floor('request encoder Ok leaves (plus reported unanalysable paths)', n + getattr(chk, 'unanalysable', 0), 17)
    chk.assumptions = ['routing information update: 0-7 entries (the encoder refuses more; refusal checked by C16)']


def totality(chk, rule, kinds, encs, what):
    """Inside the documented shapes (and with a buffer that is long enough) an encoder produces its packet - a path that
    panics there produces none.  The feasibility argument is C16.c's, restricted to the encoders this property is about."""
    prog = chk.an.prog
    for enc in encs:
        if enc.kind not in kinds or not in_scope(enc):
            continue
        oks = enc.ok_leaves()
        for lf in enc.bad_leaves():
            if lf.kind != 'panic':
                continue            # unanalysable paths are reported by the body rule
            chk.evals()
            reason = panic_in_scope(enc, lf, oks)
            fn, sp = local_site(prog, lf)
            chk.ob(rule, leaf_id(enc, lf), reason is None,
                   chk.key(enc.entry, rule, fn, 'panic:%s:%s' % (lf.panic[0].replace('call:core::panicking::', ''), lf.panic[1])),
                   '%s produces no %s for arguments within the documented shapes: it panics (%s; %s)' % (enc.key, what, lf.panic[1], reason),
                   site=sp, detail={'leaf': dump_leaf(lf, prog, heap=False), 'call_path': call_path(lf)})


def c07(chk):
    chk.explanation = (
        'For each of the 6 control response encoders the body of every Ok leaf is compared with the reference (DSP0236 clause '
        '12): byte 9 = 0x00 (Rq 0, D 0, reserved 0), byte 10 = the command answered, byte 11 = the completion-code argument, then '
        'the response fields. Packed bytes are compared bit by bit, so every enum combination is covered at once; the EID byte '
        'must be the content of the response half\'s own EID cell. Message type lists are case-split 0..30 and vendor ID fields '
        '0..7 by the interpreter, each length compared cell by cell. C07.total: no panic path of a response encoder is feasible '
        'inside the documented shapes once the buffer is long enough (otherwise no body is produced for those arguments).')
    chk.rules_text = 'R-layout (bit level) on cells 9..len-2 of each response encoder; table agreement on argument enumerations'
    encs, n, seen = body_rule(chk, 'C07', ('response',), 'control response body')
    enum_tables(chk, 'C07')
    for api in commands.RESPONSES:
        chk.ob('C07.present', 'resp.' + api, ('resp.' + api) in seen,
               chk.key('resp.' + api, 'C07.present', api, 'encoder-missing-or-never-succeeds'),
               'response encoder %s was not found or has no succeeding path' % api)
    totality(chk, 'C07.total', ('response',), encs, 'response body')
    chk.floor('response encoder Ok leaves (plus reported unanalysable paths)', n + getattr(chk, 'unanalysable', 0), 25)
    chk.assumptions = ['0-30 message types, vendor ID field of 0-7 bytes (the documented shapes)',
                       'the fields are required for every completion code (the library writes them regardless; the statement constrains Success)']


def c08(chk):
    an, prog = chk.an, chk.an.prog
    chk.explanation = (
        'vendor_defined: R-class over all 256 values of the format byte - the leaves with format = 0 carry type 0x7E, bits '
        '15..8 then 7..0 of the vendor ID and then the caller\'s message as one verbatim copied region; format = 1 carries '
        '0x7F, the four ID bytes most-significant first, then the message; every other value returns Err with nothing written. '
        'The four generate_*_packet_bytes writers (both implementors, with and without header): optional header region then '
        'data region, verbatim, directly after byte 8, followed by the PEC.')
    chk.rules_text = 'R-layout on cells 8..len-2 of vendor_defined and the generate_* writers; R-class on the format byte'
    encs, n, seen = body_rule(chk, 'C08', ('vendor', 'writer'), 'vendor / SPDM framing')
    totality(chk, 'C08.total', ('vendor', 'writer'), encs, 'framed message')
    # message type byte (cell 8) for these writers
    _, rows = analysed(chk, report=False)
    for enc, lf, know, length, ordered, why in rows:
        if enc.kind not in ('vendor', 'writer') or ordered is None:
            continue
        if enc.kind == 'vendor':
            fmt = know.leaf_allowed(in_leaf('format', 'format'))
            mt = K(8, 0x7E) if fmt == frozenset([0]) else (K(8, 0x7F) if fmt == frozenset([1]) else K(8, 0xFF))
        else:
            mt = E.message_type_term(enc)
        items = E.header_items(enc, length, msg_type=mt)
        cell_rule(chk, 'C08.type', enc, lf, know, ordered, items, [8], 'message type byte')
    # R-class on the format byte
    for enc in encs:
        if enc.kind != 'vendor':
            continue
        leaves, na = enc.leaves()
        fl = in_leaf('format', 'format')
        for v in range(256):
            chk.evals()
            hits = [lf for lf in leaves if v in (lf.know.leaf_allowed(fl) or ())]
            if v in (0, 1):
                ok = any(lf.kind == 'return' and is_ok(prog, lf.value) for lf in hits) and not any(lf.kind == 'return' and is_err(prog, lf.value) and E.written_atoms(lf, 'buf') == [] and False for lf in hits)
                bad = [lf for lf in hits if lf.kind == 'return' and is_err(prog, lf.value) and refusal_reason(enc, lf) is None]
                ok = ok and not bad
                what = 'format %d is not encoded (or refused for an undocumented reason)' % v
            else:
                ok = bool(hits) and all(lf.kind == 'return' and is_err(prog, lf.value) and not E.written_atoms(lf, 'buf') for lf in hits)
                what = 'vendor ID format 0x%02X is not refused with an untouched buffer' % v
            chk.ob('C08.format', 'vendor_defined format=0x%02X' % v, ok,
                   chk.key(enc.entry, 'C08.format', enc.key, 'format=%02X' % v), what, site=site_of(enc),
                   nontrivial=v in (0, 1, 2, 0xFF))
    chk.floor('vendor / writer Ok leaves (plus reported unanalysable paths)', n + getattr(chk, 'unanalysable', 0), 10)
    chk.assumptions = ['message bodies of every length the SMBus frame can carry (longer ones are refused; checked by C04/C16)']


# ------------------------------------------------------------------------------ C16

def c16(chk):
    RULE = 'C16'
    an, prog = chk.an, chk.an.prog
    chk.explanation = (
        'Per encoder, on every leaf. C16.a: on an Ok leaf the written bytes form a gap-free, overlap-free chain [0, len) and len '
        'is the returned value (nothing beyond is written because nothing else is in the write list). C16.b (R-dep): no written '
        'byte, no returned length and no guard atom of an Ok leaf depends on the buffer\'s previous content; atoms on the buffer\'s '
        'length are exactly bounds checks, each implied by len(buf) >= len. C16.c (R-panic): every panic / unanalysable leaf is '
        'infeasible once len(buf) >= the packet length and the documented argument shapes are assumed. C16.d: every Err leaf has '
        'an empty write list and a guard that implies a documented refusal (EID 0x00/0xFF, 8+ routing entries, more than 30 '
        'types, vendor format not 0/1, frame too large); any other argument class reaches the Ok leaf because the leaves '
        'partition the input space. The three declared stubs are excluded by name and re-verified to end in a panic on every path.')
    chk.rules_text = 'written-range chain, R-dep on free symbols, R-panic under len(buf) >= len, R-class on refusal guards'
    chk.assumptions = ['len(buf) >= the packet length', 'documented shapes: 16-byte UUID (in the type), vendor ID field of at most 7 bytes',
                       'the stubs request_tx_rate_limit / update_rate_limmit / query_supported_interfaces are declared unimplemented (not findings)']
    encs, rows = analysed(chk, 'C16.a')
    n = 0
    for enc, lf, know, length, ordered, why in rows:
        n += 1
        # C16.a
        chk.evals()
        chk.ob('C16.a', leaf_id(enc, lf), ordered is not None,
               chk.key(enc.entry, 'C16.a', enc.key, 'range:' + str(why)),
               '%s does not write exactly the %s bytes it reports: %s' % (enc.key, show_term(simp(know, length)), why),
               site=site_of(enc), detail={'leaf': dump_leaf(lf, prog)},
               show='%d writes form the chain [0, %s) and Ok(%s) is returned' % (len(ordered or []), show_term(simp(know, length)), show_term(simp(know, length))))
        # C16.b
        bad = []
        init = enc.bufname + '@init'
        syms = set()
        for a in E.written_atoms(lf, enc.bufname):
            if a[0] == 'cell':
                syms |= leaves_of(a[2])
        syms |= leaves_of(length)
        for l in syms:
            if l[0] == 'in' and l[1] and l[1][0] == init:
                bad.append('output depends on the previous buffer content (%s)' % show_leaf(l))
            if l == len_leaf(enc.bufname):
                bad.append('output depends on the buffer capacity')
        c0, ts = lin_of(length)
        big = mk_cmp('Ge', len_term(enc.bufname), mk_lin(USIZE, c0, ts))
        argk = Know()
        ok_args = True
        for a in lf.facts:
            ls = atom_leaves(a)
            if any(l[0] == 'in' and l[1] and l[1][0] == init for l in ls):
                bad.append('guard depends on the previous buffer content: %s' % show_atom(a))
            if len_leaf(enc.bufname) not in ls:
                try:
                    argk.assume(a)
                except Infeasible:
                    ok_args = False
        if big[0] == 'atom':
            try:
                argk.assume(big[1])
            except Infeasible:
                ok_args = False
        for a in lf.facts:
            if len_leaf(enc.bufname) in atom_leaves(a) and ok_args:
                if argk.decide(a) is not True:
                    bad.append('behaviour depends on spare capacity: guard %s is not implied by len(buf) >= %s' % (show_atom(a), show_term(length)))
        chk.evals()
        chk.ob('C16.b', leaf_id(enc, lf), not bad, chk.key(enc.entry, 'C16.b', enc.key, 'dep:' + ';'.join(sorted(set(bad)))),
               '%s: %s' % (enc.key, '; '.join(sorted(set(bad)))), site=site_of(enc), detail={'leaf': dump_leaf(lf, prog)})
    # C16.c panics
    for enc in encs:
        if not in_scope(enc):
            continue
        oks = enc.ok_leaves()
        for lf in enc.bad_leaves():
            chk.evals()
            reason = panic_in_scope(enc, lf, oks)
            fn, sp = local_site(prog, lf)
            chk.ob('C16.c', leaf_id(enc, lf), reason is None,
                   chk.key(enc.entry, 'C16.c', fn, 'panic:%s:%s' % (lf.panic[0].replace('call:core::panicking::', ''), lf.panic[1])),
                   '%s %s although the buffer is long enough and the arguments are within the documented shapes: %s (%s)' % (
                       enc.key, 'panics' if lf.kind == 'panic' else 'cannot be analysed', lf.panic[1], reason),
                   site=sp, detail={'leaf': dump_leaf(lf, prog, heap=False), 'call_path': call_path(lf)})
    # C16.d refusals
    for enc in encs:
        if not in_scope(enc):
            continue
        for lf in enc.err_leaves():
            chk.evals()
            wrote = E.written_atoms(lf, enc.bufname)
            chk.ob('C16.d', '%s untouched' % leaf_id(enc, lf), not wrote,
                   chk.key(enc.entry, 'C16.d', enc.key, 'refusal-writes:%d' % len(wrote)),
                   '%s returns Err after writing %d bytes into the buffer' % (enc.key, len(wrote)), site=site_of(enc),
                   detail={'leaf': dump_leaf(lf, prog)})
            why = refusal_reason(enc, lf) if enc.kind != 'generic' else 'no reference'
            chk.ob('C16.d', '%s documented' % leaf_id(enc, lf), why is not None,
                   chk.key(enc.entry, 'C16.d', enc.key, 'undocumented-refusal:' + ';'.join(guard_text(lf)[-2:])),
                   '%s refuses arguments the API does not document as invalid: %s' % (enc.key, '; '.join(guard_text(lf))),
                   site=site_of(enc), detail={'leaf': dump_leaf(lf, prog)})
        # the documented refusals must exist (converse direction, by partition: a documented-invalid class must not reach Ok)
        for r in (enc.spec or {}).get('refuse', []):
            for lf in enc.ok_leaves():
                chk.evals()
                if r[0] == 'u8-in':
                    al = lf.know.leaf_allowed(in_leaf(r[1]))
                    ok = al is not None and not (al & frozenset(r[2]))
                    what = '%s accepts %s in {%s}' % (enc.key, r[1], ', '.join('0x%02X' % x for x in r[2]))
                else:
                    lo, hi = lf.know.leaf_range(len_leaf(r[1]))
                    ok = hi <= r[2]
                    what = '%s accepts %d %s (documented maximum %d)' % (enc.key, hi if hi < 1 << 40 else -1, r[1], r[2])
                chk.ob('C16.d', '%s refuses %s' % (leaf_id(enc, lf), r[1]), ok,
                       chk.key(enc.entry, 'C16.d', enc.key, 'accepts-invalid:%s' % r[1]), what, site=site_of(enc),
                       detail={'leaf': dump_leaf(lf, prog)})
        if enc.kind == 'vendor':
            for lf in enc.ok_leaves():
                al = lf.know.leaf_allowed(in_leaf('format', 'format'))
                chk.ob('C16.d', '%s refuses other formats' % leaf_id(enc, lf), al is not None and al <= frozenset([0, 1]),
                       chk.key(enc.entry, 'C16.d', enc.key, 'accepts-invalid:format'),
                       'vendor_defined accepts a vendor ID format other than 0/1', site=site_of(enc))
    # stubs: all paths panic
    for enc in encs:
        if enc.kind == 'stub':
            leaves, na = enc.leaves()
            ok = all(lf.kind == 'panic' for lf in leaves)
            chk.ob('C16.stub', enc.entry, ok, chk.key(enc.entry, 'C16.stub', enc.key, 'stub-returns'),
                   '%s is listed as an unimplemented stub but has a returning path; it needs a reference layout' % enc.key,
                   site=site_of(enc))
    chk.floor('encoder Ok leaves (plus reported unanalysable paths)', n + getattr(chk, 'unanalysable', 0), 40)
    chk.floor('encoders analysed', len([e for e in encs if in_scope(e)]), N_ENCODERS_FLOOR)


def quick_incompatible(k1, k2, skip_leaf):
    """Cheap test: some symbol other than the buffer length has disjoint ranges / value sets in the two leaves."""
    for leaf, al in k1.allowed.items():
        al2 = k2.allowed.get(leaf)
        if al2 is not None and not (al & al2):
            return True
    for key, (lo, hi) in k1.bounds.items():
        if len(key) != 1 or key[0][1] != 1 or key[0][0] == skip_leaf:
            continue
        b2 = k2.bounds.get(key)
        if b2 is None:
            continue
        lo2, hi2 = b2
        if (lo is not None and hi2 is not None and lo > hi2) or (hi is not None and lo2 is not None and hi < lo2):
            return True
    return False


def panic_in_scope(enc, lf, oks):
    """None if the failing leaf is outside the property's quantifier (buffer too short for the packet, or arguments
    outside the documented shapes); otherwise a text saying why it is inside."""
    # documented shapes
    for sh in (enc.spec or {}).get('shape', []):
        if sh[0] == 'count-le':
            lo, hi = lf.know.leaf_range(len_leaf(sh[1]))
            if lo > sh[2]:
                return None
    bl = len_leaf(enc.bufname)
    arg_compatible = False
    for o in oks:
        if quick_incompatible(lf.know, o.know, bl):
            continue
        k = lf.know.clone()
        try:
            for a in o.facts:
                if bl not in atom_leaves(a):
                    k.assume(a)
        except Infeasible:
            continue
        arg_compatible = True
        try:
            length = o.value[3][0]
            c0, ts = lin_of(length)
            big = mk_cmp('Ge', len_term(enc.bufname), mk_lin(USIZE, c0, ts))
            if big[0] == 'atom':
                k.assume(big[1])
            elif not big[2]:
                raise Infeasible()
        except Infeasible:
            continue
        return 'feasible together with the arguments of the succeeding path [%s] and len(buf) >= %s' % (
            '; '.join(show_atom(a) for a in o.facts if bl not in atom_leaves(a))[:200], show_term(length))
    if not arg_compatible:
        return 'these arguments are neither refused nor encoded on any path'
    return None
