"""C09 - the decoder accepts exactly the well-formed packets and its errors are truthful."""
from common import *
from decoder import *
import decode_ref
import commands


def run(chk):
    an, prog = chk.an, chk.an.prog
    ent = 'ctx.decode_packet'
    chk.explanation = (
        'decode_packet is interpreted on a packet of free length and free bytes; its leaves partition the input space. C09.a '
        '(R-class): for each leaf, the classes of bytes 4, 8, 9, 10, 11 consistent with its guard (hdr ok / IC / the five types / '
        'Rq / each of the 256 command codes / each completion code) x {PEC ok, PEC wrong} x the data-length relation are '
        'enumerated; the reference predicate (spec/decode_ref.py) must accept exactly when the leaf returns Ok, and a rejecting '
        'leaf\'s error must be among the errors whose condition holds for every class of the leaf. A leaf that accepts without '
        'having tested something shows up as a class on which the reference disagrees. C09.b: the accepted view is '
        '[9+h, len-1) of the input itself. C09.c (R-dep): no guard atom, outcome or effect mentions the context. The fixed '
        'lengths are the list in the property (spec/commands.py), so the code\'s length tables are compared with it on every class.')
    chk.rules_text = 'R-class (exhaustive over header-byte classes x PEC x length relation per leaf), payload view identity, R-dep'
    chk.assumptions = [
        'outside the claim, as the property says: inputs too short to hold the headers (only "is rejected" is checked), responses to Get Endpoint ID / Allocate Endpoint IDs / Routing Information Update, panicking leaves (C10)',
        'PEC correctness is the atom packet[len-1] == PEC(packet[0..len-1)): term identity, not CRC arithmetic',
    ]
    leaves, na = an.leaves(ent)
    pa = pec_atom()
    n_combos = 0
    n_un = 0
    MC = 0x00
    for i, lf in enumerate(leaves):
        sub = '%s leaf %d' % (ent, i)
        if lf.kind == 'unanalysable':
            fn, sp = local_site(prog, lf)
            n_un += 1
            chk.ob('C09.a', sub + ' (unanalysable path)', False, chk.key(ent, 'C09.a', fn, 'cannot-certify:' + lf.panic[1][:120]),
                   'cannot certify: a path of the decoder cannot be analysed (%s)' % lf.panic[1], site=sp,
                   detail={'leaf': dump_leaf(lf, prog, na, heap=False), 'call_path': call_path(lf)})
            continue
        if lf.kind != 'return':
            continue   # C10
        fn, sp = local_site(prog, lf)
        res = describe_result(prog, lf.value)
        # C09.c context independence
        ctx_syms = set()
        for a in lf.facts[na:]:
            ctx_syms |= set(l for l in atom_leaves(a) if l[0] in ('in', 'len') and l[1] and l[1][0] == 'self')
        effs = [e for e in lf.effects if e[0] in ('cellread', 'cellwrite', 'heapwrite', 'outwrite')]
        chk.ob('C09.c', sub, not ctx_syms and not effs,
               chk.key(ent, 'C09.c', fn, 'context-dependence:%s' % ','.join(sorted(show_leaf(l) for l in ctx_syms) + [e[0] + ':' + str(e[1]) for e in effs])),
               'the decoder\'s outcome depends on the context: %s' % ', '.join(sorted(show_leaf(l) for l in ctx_syms) + [e[0] + ' ' + str(e[1]) for e in effs]),
               site=sp, detail={'leaf': dump_leaf(lf, prog, na)})
        lo, hi = min_len(lf)
        # too short for the headers: any rejection is acceptable, acceptance is not
        if hi < 10:
            chk.ob('C09.short', sub, res[0] == 'Err', chk.key(ent, 'C09.short', fn, 'accepts-short:%d' % hi),
                   'the decoder accepts an input of at most %d bytes' % hi, site=sp)
            continue
        bad = independent_guard(lf, na)
        if bad:
            chk.ob('C09.a', sub, False, chk.key(ent, 'C09.a', fn, 'cannot-classify:' + show_atom(bad[0])),
                   'cannot certify: guard atom %s relates several input bytes, the leaf cannot be classified' % show_atom(bad[0]),
                   site=sp, detail={'leaf': dump_leaf(lf, prog, na)})
            continue
        extra = other_pec_atoms(lf, pa)
        if extra:
            chk.ob('C09.a', sub, False, chk.key(ent, 'C09.a', fn, 'pec-atom:' + show_atom(extra[0])),
                   'the decoder compares something other than the last byte with the PEC of all preceding bytes: %s' % show_atom(extra[0]),
                   site=sp, detail={'leaf': dump_leaf(lf, prog, na)})
            continue
        cls = classify(lf)
        pst = pec_state(lf, pa)
        pecs = [True, False] if pst is None else [pst]
        problems = {}
        for hdr_ok in cls['hdr_ok']:
            for (ic, mt) in cls['b8']:
                control = (not ic) and mt == MC and hdr_ok
                rqs = cls['rq'] if control else [None]
                for rq in rqs:
                    cmds = cls['cmd'] if control else [None]
                    for cmd in cmds:
                        ccs = cls['cc'] if (control and rq == 0) else [None]
                        # classes of cc: 0, each of 1..5, >5 (one representative per class in the leaf)
                        if ccs != [None]:
                            reps = []
                            for c in sorted(ccs):
                                if c <= 5 or not any(r > 5 for r in reps):
                                    reps.append(c)
                            ccs = reps
                        for cc in ccs:
                            if control:
                                if decode_ref.outside_claim(rq, cmd):
                                    continue
                                # too short for the control header / completion code: any rejection is fine
                                need = 12 if rq else 13
                                if hi < need:
                                    if res[0] != 'Err':
                                        problems['accepts a control message too short for its headers'] = 1
                                    continue
                                t = decode_ref.fixed_len(rq, cmd)
                                if t > 0:
                                    le = data_len_eq(lf, rq, t)
                                    lens = [True, False] if le is None else [le]
                                else:
                                    lens = [True]
                            else:
                                lens = [True]
                            for pec_ok in pecs:
                                for len_eq in lens:
                                    n_combos += 1
                                    mtv = mt if mt is not None else -1
                                    acc = decode_ref.accepts(hdr_ok, ic, mtv, rq, cmd, cc, pec_ok, len_eq)
                                    desc = 'hdr_ok=%s ic=%s type=%s rq=%s cmd=%s cc=%s pec_ok=%s len_eq=%s' % (
                                        hdr_ok, ic, ('%02X' % mt) if mt >= 0 else 'unsupported', rq,
                                        ('%02X' % cmd) if cmd is not None else None, ('%02X' % cc) if cc is not None else None, pec_ok, len_eq)
                                    if res[0] == 'Ok':
                                        if not acc:
                                            problems['accepts an input the reference rejects (%s)' % desc] = 1
                                        else:
                                            # type and view
                                            pay = res[1]
                                            ok_v = pay[0] == 'tuple' and pay[1][0][0] == 'adt' and \
                                                variant_name(prog, pay[1][0]) == decode_ref.SUPPORTED[mt]
                                            if not ok_v:
                                                problems['accepted with message type %s, expected %s' % (show_value(pay, prog), decode_ref.SUPPORTED[mt])] = 1
                                            off = decode_ref.payload_offset(mt, rq)
                                            sl = pay[1][1] if pay[0] == 'tuple' else None
                                            L = len_term('packet')
                                            c0, ts = lin_of(L)
                                            ok_s = sl is not None and sl[0] == 'slice' and sl[1] == (('heap', 'packet'), ()) and \
                                                eq_under(lf.know, sl[2], K(USIZE, off)) is True and \
                                                eq_under(lf.know, sl[3], mk_lin(USIZE, c0 - 1, ts)) is True
                                            if not ok_s:
                                                problems['payload is %s, expected &packet[%d..len-1] (%s)' % (show_value(sl, prog) if sl else '?', off, desc)] = 1
                                    elif res[0] == 'Err':
                                        if acc:
                                            problems['rejects (%s) an input the reference accepts (%s)' % (show_value(lf.value, prog), desc)] = 1
                                        else:
                                            allowed = decode_ref.truthful_errors(hdr_ok, ic, mtv, rq, cmd, cc, pec_ok, len_eq)
                                            got = (res[1], res[2])
                                            if got not in allowed:
                                                problems['error %s does not name a condition that holds (%s); truthful here: %s' % (
                                                    show_value(lf.value, prog), desc, sorted(map(str, allowed)))] = 1
                                    else:
                                        problems['unrecognised result %s' % show_value(lf.value, prog)] = 1
        chk.evals(1)
        first = sorted(problems)[0] if problems else ''
        chk.ob('C09.a', sub, not problems,
               chk.key(ent, 'C09.a', fn, 'leaf-disagrees:%s:%s' % (show_value(lf.value, prog), first.split(' (')[0])),
               'the decoder %s' % first, site=sp,
               detail={'leaf': dump_leaf(lf, prog, na), 'all_problems': sorted(problems)[:20]},
               show='leaf [%s] -> %s agrees with the reference on every class it contains' % ('; '.join(guard_text(lf, na)[-4:]), show_value(lf.value, prog)))
    chk.evaluations += n_combos
    chk.extra['class_combinations_evaluated'] = n_combos
    chk.floor('leaves of decode_packet', len(leaves), 30)
    chk.floor('class combinations (or reported unanalysable paths)', n_combos + 1000 * n_un, 1000)
