"""C18 - header views read and write exactly their documented bit positions."""
from common import *
import layouts


# private accessors of the views (declared without `pub` in the bitfield! blocks)
OPTIONAL = {'rsvd', '_rsvd', 'ic', 'set_ic'}


def storage_term(i):
    return in_term('self', '0', i)


def storage_leaf(i):
    return in_leaf('self', '0', i)


def field_bits_lsb_first(segs):
    """[(byte, bit)] from least significant bit of the field upward."""
    out = []
    for (byte, hi, lo) in reversed(segs):
        for b in range(lo, hi + 1):
            out.append((byte, b))
    return out


def run(chk):
    an, prog = chk.an, chk.an.prog
    chk.explanation = (
        'Every accessor of the seven public header views is interpreted at the storage type the library constructs ([u8; 1|2|4]) '
        'with every storage byte a distinct symbol and the written value a symbol. The macro-generated BitRange code is '
        'interpreted bit by bit, not modelled. Getter: the returned bit-vector must be exactly the reference field bits '
        '(spec/layouts.py, from DSP0236/DSP0237), zero-extended. Setter: afterwards every storage bit inside the field equals the '
        'corresponding low bit of the value (truncation to the field width) and every bit outside is the original symbol, so '
        'read-after-write and preservation of neighbours follow for all 2^8..2^32 raw values at once. Validators: the leaves of '
        'MCTPTransportHeader::new_from_buf are evaluated on all 256 x 256 (byte 0, version) pairs and those of '
        'MCTPMessageBodyHeader::new_from_buf on all 256 bytes; Ok exactly where the reference predicate holds, carrying the input bytes.')
    chk.rules_text = 'bit-vector identity of accessor summaries with reference layouts; R-class by evaluating validator guards on every raw value'
    chk.assumptions = ['instantiations of the generic views at storage types other than the library\'s own ([u8; N]) are not enumerated']
    n_acc = 0
    for sname, spec in sorted(layouts.VIEWS.items()):
        for fname, (segs, getter, setter, vbits) in sorted(spec['fields'].items()):
            fb = field_bits_lsb_first(segs)
            # ---- getter
            ent = 'view.%s.%s' % (sname, getter)
            if ent not in an.entries:
                if getter in OPTIONAL:
                    pass       # a private accessor: not part of the public views the property speaks of
                else:
                    chk.ob('C18.get', ent, False, chk.key(ent, 'C18.get', ent, 'missing'), 'getter %s::%s not found' % (sname, getter))
            else:
                n_acc += 1
                leaves, na = an.leaves(ent)
                ok = len(leaves) == 1 and leaves[0].kind == 'return'
                got = '?'
                if ok:
                    v = leaves[0].value
                    w = width(v)
                    exp_bits = []
                    for (byte, b) in fb:
                        exp_bits.append((storage_leaf(byte), b))
                    exp = mk_bv(w, tuple(exp_bits) + (0,) * (w - len(exp_bits)))
                    ok = (v == exp) and w == vbits
                    got = show_term(v)
                else:
                    got = '%d leaves / %s' % (len(leaves), [l.kind for l in leaves][:3])
                chk.evals(len(fb))
                chk.ob('C18.get', ent, ok, chk.key(ent, 'C18.get', an.entries[ent]['key'], 'bits:%s' % got),
                       '%s::%s reads %s, expected bits %s' % (sname, getter, got, segs), site=prog.instances[an.entries[ent]['key']]['span']['at'])
            # ---- setter
            if setter is None:
                continue
            ent = 'view.%s.%s' % (sname, setter)
            if ent not in an.entries:
                if setter not in OPTIONAL:
                    chk.ob('C18.set', ent, False, chk.key(ent, 'C18.set', ent, 'missing'), 'setter %s::%s not found' % (sname, setter))
                continue
            n_acc += 1
            leaves, na = an.leaves(ent)
            ok = len(leaves) == 1 and leaves[0].kind == 'return'
            detail = ''
            if ok:
                st = leaves[0].heap.get('self')
                try:
                    arr = st[3][0][1]
                except Exception:
                    arr = None
                vleaf = ('in', ('value',), vbits, None)
                inside = dict(((byte, b), k) for k, (byte, b) in enumerate(fb))
                if arr is None or len(arr) != spec['bytes']:
                    ok = False
                    detail = 'storage not found'
                else:
                    for byte in range(spec['bytes']):
                        exp = []
                        for b in range(8):
                            if (byte, b) in inside:
                                exp.append((vleaf, inside[(byte, b)]))
                            else:
                                exp.append((storage_leaf(byte), b))
                        e = mk_bv(8, tuple(exp))
                        if arr[byte] != e:
                            ok = False
                            detail += 'byte %d becomes %s, expected %s; ' % (byte, show_term(arr[byte]), show_term(e))
            else:
                detail = '%d leaves / %s' % (len(leaves), [(l.kind, l.panic) for l in leaves][:3])
            chk.evals(8 * spec['bytes'])
            chk.ob('C18.set', ent, ok, chk.key(ent, 'C18.set', an.entries[ent]['key'], 'store:%s' % detail[:200]),
                   '%s::%s does not store exactly the field %s: %s' % (sname, setter, segs, detail),
                   site=prog.instances[an.entries[ent]['key']]['span']['at'])
    chk.floor('accessors analysed', n_acc, 45)
    # ---- validators
    ent = 'view.MCTPTransportHeader.new_from_buf'
    if ent in an.entries:
        leaves, na = an.leaves(ent)
        b0 = in_leaf('buf', 0)
        ver = in_leaf('version')
        bad = None
        n = 0
        for x in range(256):
            for v in range(256):
                n += 1
                env = {b0: x, ver: v}
                try:
                    hits = [lf for lf in leaves if all(eval_atom(a, env) for a in lf.facts[na:])]
                except CannotEval:
                    hits = []      # the validator looks at something else than byte 0 and the version: cannot classify
                want = layouts.transport_valid(x, v)
                if len(hits) != 1 or hits[0].kind != 'return' or is_ok(prog, hits[0].value) != want:
                    bad = bad or (x, v, want, [show_value(h.value, prog) if h.kind == 'return' else h.kind for h in hits])
        chk.evals(n)
        chk.ob('C18.validate', ent, bad is None, chk.key(ent, 'C18.validate', an.entries[ent]['key'], 'pair:%s' % (bad[:3],) if bad else ''),
               'MCTPTransportHeader::new_from_buf(byte0=0x%02X, version=0x%02X) should be %s but is %s' % ((bad[0], bad[1], 'Ok' if bad[2] else 'Err', bad[3]) if bad else (0, 0, '', '')),
               site=prog.instances[an.entries[ent]['key']]['span']['at'])
        oks = [lf for lf in leaves if lf.kind == 'return' and is_ok(prog, lf.value)]
        same = all(lf.value[3][0][3][0] == ('array', tuple(in_term('buf', i) for i in range(4))) for lf in oks) and oks
        chk.ob('C18.validate', ent + ' carries the input', bool(same), chk.key(ent, 'C18.validate', an.entries[ent]['key'], 'storage-differs'),
               'a transport header built from bytes does not carry exactly those bytes')
    else:
        chk.ob('C18.validate', ent, False, chk.key(ent, 'C18.validate', ent, 'missing'), 'validator not found')
    ent = 'view.MCTPMessageBodyHeader.new_from_buf'
    if ent in an.entries:
        leaves, na = an.leaves(ent)
        b0 = in_leaf('buf', 0)
        bad = None
        for x in range(256):
            hits = [lf for lf in leaves if x in lf.know.leaf_allowed(b0)]
            want = layouts.body_valid(x)
            if len(hits) != 1 or hits[0].kind != 'return' or is_ok(prog, hits[0].value) != want:
                bad = bad or (x, want, [show_value(h.value, prog) if h.kind == 'return' else h.kind for h in hits])
        chk.evals(256)
        chk.ob('C18.validate', ent, bad is None, chk.key(ent, 'C18.validate', an.entries[ent]['key'], 'byte:%s' % (bad[:2],) if bad else ''),
               'MCTPMessageBodyHeader::new_from_buf(0x%02X) should be %s but is %s' % ((bad[0], 'Ok' if bad[1] else 'Err', bad[2]) if bad else (0, '', '')),
               site=prog.instances[an.entries[ent]['key']]['span']['at'])
        oks = [lf for lf in leaves if lf.kind == 'return' and is_ok(prog, lf.value)]
        same = all(lf.value[3][0][3][0] == ('array', (in_term('buf', 0),)) for lf in oks) and oks
        chk.ob('C18.validate', ent + ' carries the input', bool(same), chk.key(ent, 'C18.validate', an.entries[ent]['key'], 'storage-differs'),
               'a message body header built from a byte does not carry exactly that byte')
    else:
        chk.ob('C18.validate', ent, False, chk.key(ent, 'C18.validate', ent, 'missing'), 'validator not found')
