"""C15 - see proc_rules.c15"""
import proc_rules


def run(chk):
    proc_rules.c15(chk)
