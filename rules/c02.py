"""C02 - a packet whose PEC does not match is never accepted or acted upon."""
from common import *
from decoder import *


def run(chk):
    an, prog = chk.an, chk.an.prog
    chk.explanation = (
        'C02.a (must-pass-through, path-sensitive): every Ok leaf of decode_packet has in its guard the atom '
        'packet[len-1] == PEC(packet[0 .. len-1)) - last byte, whole prefix; a comparison with another byte or a PEC over a '
        'shorter view is a different atom and is reported. C02.b: every leaf of process_packet that returns Ok, writes the '
        'response buffer or writes a state cell has the same atom. C02.c: rejecting leaves (guard holds the negated atom, or any '
        'Err) have no cell write and no buffer write; every read of the vendor-ID selector cell is preceded by a write in the same '
        'leaf, so no output depends on what an earlier (possibly rejected) packet left there. Thorough tier: the callee is '
        'smbus_pec::pec of the version pinned in Cargo.lock (C02.d: pin, shape, per-byte table = CRC-8/0x07 from its MIR) and '
        'C02.e: on that derived table the step is GF(2)-linear and injective and none of the 255 x 8 bursts of at most eight '
        'bits is absorbed, which with C02.a/b gives the burst-error clause.')
    chk.rules_text = 'R-dom over the leaves of decode_packet and process_packet; effect lists of rejecting leaves; read-after-write on the selector cell'
    chk.assumptions = [
        'the burst-error clause (no corruption confined to 8 consecutive bits is accepted) is decided in the thorough tier only (C02.e): linearity, injectivity and the 2040 burst cases on the per-byte table derived from the MIR of smbus_pec::pec, composed with C02.a/b (acceptance compares the last byte with the PEC of every byte before it); the quick tier decides the structural premise C02.a/b only',
        'process_packet under the valid-configuration precondition (C10 owns its panic leaves)',
    ]
    pa = pec_atom()
    n_ok = 0
    for ent in ('ctx.decode_packet', 'process_packet'):
        leaves, na = an.leaves(ent)
        for i, lf in enumerate(leaves):
            sub = '%s leaf %d' % (ent, i)
            if lf.kind == 'unanalysable':
                fn, sp = local_site(prog, lf)
                n_ok += 1
                chk.ob('C02.a' if ent.startswith('ctx.') else 'C02.b', sub + ' (unanalysable path)', False,
                       chk.key(ent, 'C02.a' if ent.startswith('ctx.') else 'C02.b', fn, 'cannot-certify:' + lf.panic[1][:120]),
                       'cannot certify: a path of %s cannot be analysed, so it is not known whether it accepts without comparing the PEC (%s)' % (ent, lf.panic[1]),
                       site=sp, detail={'leaf': dump_leaf(lf, prog, na, heap=False), 'call_path': call_path(lf)})
                continue
            if lf.kind != 'return':
                # a panic leaf must not have acted either
                acted = [e for e in lf.effects if e[0] in ('cellwrite', 'outwrite')]
                if acted and pec_state(lf, pa) is not True:
                    fn, sp = local_site(prog, lf)
                    chk.ob('C02.b', sub, False, chk.key(ent, 'C02.b', fn, 'acts-before-pec:' + acted[0][0] + ':' + str(acted[0][1])),
                           '%s acts (%s %s) on a path that has not compared the PEC' % (ent, acted[0][0], acted[0][1]), site=sp,
                           detail={'leaf': dump_leaf(lf, prog, na)})
                continue
            fn, sp = local_site(prog, lf)
            ok_ret = is_ok(prog, lf.value)
            acted = [e for e in lf.effects if e[0] in ('cellwrite', 'outwrite', 'heapwrite')]
            st = pec_state(lf, pa)
            if ok_ret or acted:
                n_ok += 1
                chk.evals()
                extra = other_pec_atoms(lf, pa)
                what = 'returns success' if ok_ret else 'acts (%s %s)' % (acted[0][0], acted[0][1])
                chk.ob('C02.a' if ent.startswith('ctx.') else 'C02.b', sub, st is True,
                       chk.key(ent, 'C02.a' if ent.startswith('ctx.') else 'C02.b', fn,
                               'atom-missing:pec:%s:%s' % (show_value(lf.value, prog)[:60], 'other=' + show_atom(extra[0]) if extra else 'none')),
                       '%s %s on a path whose guard lacks packet[len-1] == PEC(packet[0..len-1))%s: %s' % (
                           ent, what, (' (it compares %s instead)' % show_atom(extra[0])) if extra else '', show_value(lf.value, prog)[:120]),
                       site=sp, detail={'leaf': dump_leaf(lf, prog, na)})
            if not ok_ret:
                chk.ob('C02.c', sub, not acted,
                       chk.key(ent, 'C02.c', fn, 'rejecting-leaf-acts:' + (acted[0][0] + ':' + str(acted[0][1]) if acted else '')),
                       '%s rejects the input but has already %s' % (ent, '%s %s' % (acted[0][0], acted[0][1]) if acted else ''),
                       site=sp, detail={'leaf': dump_leaf(lf, prog, na)})
            # selector cell: read only after a write in the same leaf
            written = set()
            for e in lf.effects:
                if e[0] == 'cellwrite':
                    written.add(e[1])
                if e[0] == 'cellread' and e[1].endswith('vendor_id_selector'):
                    chk.ob('C02.c', sub + ' selector', e[1] in written,
                           chk.key(ent, 'C02.c', fn, 'selector-read-before-write'),
                           'the response depends on the selector value left by an earlier packet (cell read before it is written)',
                           site=sp, detail={'leaf': dump_leaf(lf, prog, na)})
    chk.floor('accepting / acting leaves (plus reported unanalysable paths)', n_ok, 20)
    if chk.tier == 'thorough':
        import pec_params
        pec_params.check(chk, shape='C02.d', table='C02.d', burst='C02.e')
