"""C11 - see proc_rules.c11"""
import proc_rules


def run(chk):
    proc_rules.c11(chk)
