"""C08 - see enc_rules.c08"""
import enc_rules


def run(chk):
    enc_rules.c08(chk)
