"""Shared machinery of the per-property rules: obligations, findings, evidence, leaf helpers."""
import json
import os
import re
import sys
import time

VERIF = os.path.dirname(os.path.dirname(os.path.abspath(__file__)))
sys.path.insert(0, os.path.join(VERIF, 'engine'))
sys.path.insert(0, os.path.join(VERIF, 'spec'))
sys.path.insert(0, VERIF)

from terms import (K, USIZE, mk_bv, mk_lin, bits_of, lin_of, mk_cmp, width, is_const, show_term,  # noqa: E402
                   show_atom, leaves_of, atom_leaves, eval_term, eval_atom, CannotEval, leaf_bits,
                   cast_bits, shl, bitop, Know, Infeasible, leaf_domain, mk_not, show_leaf, Unsupported)
from interp import show_value  # noqa: E402
from entries import dump_leaf  # noqa: E402

KNOWN_FILE = os.path.join(VERIF, 'KNOWN_FINDINGS.txt')


class CheckerError(Exception):
    pass


def load_known():
    known, fixed = {}, {}
    if not os.path.exists(KNOWN_FILE):
        return known, fixed
    for line in open(KNOWN_FILE):
        line = line.rstrip('\n')
        if not line or line.startswith('#'):
            continue
        m = re.match(r'^known: property=(\S+) key=(.*?) what=(.*)$', line)
        if m:
            known.setdefault(m.group(1), {})[m.group(2)] = m.group(3)
            continue
        m = re.match(r'^fixed: property=(\S+) (\S+) key=(.*?) what=(.*)$', line)
        if m:
            fixed.setdefault(m.group(1), {})[m.group(3)] = (m.group(2), m.group(4))
            continue
        raise CheckerError('unparsable line in KNOWN_FINDINGS.txt: %r' % line)
    return known, fixed


class Check:
    def __init__(self, pid, tier, an, title=''):
        self.pid = pid
        self.tier = tier
        self.an = an
        self.title = title
        self.t0 = time.time()
        self.obligations = []      # (rule, subject, ok, key, what)
        self.evaluations = 0
        self.nontrivial = set()
        self.samples = []
        self._sample_rules = {}
        self.assumptions = []
        self.trusted = [
            'mirdump (rustc_private MIR serialiser, /verif/mirdump)',
            'mctpsa abstract interpreter and term algebra (/verif/engine)',
            'models of core slice/iterator/Cell functions (DESIGN.md 3.4)',
            'reference tables in /verif/spec',
        ]
        self.floors = []
        self.extra = {}
        self.explanation = ''
        self.rules_text = ''
        self.errors = []

    # ---------------------------------------------------------------- obligations
    def ob(self, rule, subject, ok, key=None, what=None, detail=None, site=None, nontrivial=True, show=None):
        """Record one rule instance. key/what/detail are used only when it fails."""
        self.obligations.append((rule, subject, bool(ok), key, what, detail, site))
        if nontrivial:
            self.nontrivial.add((rule, subject))
        if (show or not ok) and self._sample_rules.get(rule, 0) < 3 and len(self.samples) < 24:
            self._sample_rules[rule] = self._sample_rules.get(rule, 0) + 1
            self.samples.append({'rule': rule, 'subject': subject, 'verdict': 'discharged' if ok else 'FAILED',
                                 'obligation': show or what or '', 'site': site or ''})
        elif len(self.samples) < 4 and not show:
            self.samples.append({'rule': rule, 'subject': subject, 'verdict': 'discharged' if ok else 'FAILED', 'site': site or ''})
        return ok

    def evals(self, n=1):
        self.evaluations += n

    def floor(self, what, actual, minimum):
        self.floors.append((what, actual, minimum))
        if actual < minimum:
            self.errors.append('CHECKER-ERROR: %s: analysed %d, expected at least %d (a rule that matches nothing is an error, not a pass)' % (what, actual, minimum))

    def key(self, entry, rule, fn, construct):
        return '%s|%s|%s|%s|%s' % (self.pid, entry, rule, fn, construct)

    # ---------------------------------------------------------------- finishing
    def finish(self):
        known, fixed = load_known()
        known = known.get(self.pid, {})
        fixed = fixed.get(self.pid, {})
        alt = os.environ.get('MCTPSA_OUT')
        outdir = os.path.join(alt or os.path.join(VERIF, 'out'), self.pid)
        os.makedirs(outdir, exist_ok=True)
        for f in os.listdir(outdir):
            try:
                os.remove(os.path.join(outdir, f))
            except OSError:
                pass
        failed = [o for o in self.obligations if not o[2]]
        n_viol = 0
        seen_known = {}
        seen_viol = {}
        for (rule, subject, ok, key, what, detail, site) in failed:
            key = key or self.key(subject, rule, '?', 'unkeyed')
            if key in known:
                seen_known.setdefault(key, known[key])
                continue
            if key in seen_viol:
                continue
            n_viol += 1
            path = os.path.join(outdir, '%d.json' % n_viol)
            seen_viol[key] = (path, rule, subject, what, site)
            with open(path, 'w') as f:
                json.dump({'property': self.pid, 'rule': rule, 'subject': subject, 'key': key,
                           'what': what, 'site': site, 'detail': detail,
                           'previously_fixed': fixed.get(key, [None])[0]}, f, indent=1, default=str)
        for key, what in seen_known.items():
            print('KNOWN-FINDING: property=%s %s' % (self.pid, what))
        for n_printed, (key, (path, rule, subject, what, site)) in enumerate(seen_viol.items()):
            if n_printed == 40:
                print('... and %d more violations (replay files %s/41.json ...)' % (len(seen_viol) - 40, outdir))
                break
            print('VIOLATION property=%s replay=%s' % (self.pid, path))
            print('  rule %s on %s: %s' % (rule, subject, what or ''))
            if site:
                print('  at %s' % site)
            print('  key %s' % key)
        if n_viol:
            # the check already fails with named violations; a low instance count is then a consequence, not a vacuous pass
            for e in self.errors:
                print(e.replace('CHECKER-ERROR:', 'note (floor not reached, violations reported above):'))
            self.errors = []
        for e in self.errors:
            print(e)
        stale = [k for k in known if k not in seen_known]
        wall = time.time() - self.t0
        st = self.an.interp_stats
        cov = {
            'explanation': self.explanation,
            'rule': self.rules_text,
            'obligations': len(self.obligations),
            'discharged': len(self.obligations) - len(failed),
            'failed_known_findings': len(seen_known),
            'failed_new': n_viol,
            'evaluations': max(self.evaluations, len(self.obligations)),
            'distinct_nontrivial': len(self.nontrivial),
            'samples': self.samples,
            'trusted_base': self.trusted,
            'exhaustive': True,
            'checker_cmd': '/verif/check %s --tier %s' % (self.pid, self.tier),
            'analysed': {
                'tree_hash': self.an.tree,
                'profile': self.an.profile,
                'fact_file_instances': len(self.an.prog.instances),
                'entries_interpreted': st['entries'],
                'instances_interpreted': len(st['instances']),
                'leaves': st['leaves'],
                'interpreter_steps': st['steps'],
                'path_splits': st['forks'],
            },
            'floors': [{'what': w, 'analysed': a, 'minimum': m} for (w, a, m) in self.floors],
            'known_findings_listed_but_not_observed': stale,
        }
        rf = getattr(self.an, 'roles_found', None)
        if rf:
            # which private field plays which role on this tree (engine/roles.py): 'canonical <- actual'
            cov['analysed']['state_roles'] = sorted('%s <- %s' % ('.'.join(c), '.'.join(a)) for k in ('ctx', 'Req', 'Resp') for a, c in rf.get(k, []))
        cov.update(self.extra)
        ev = {
            'property_id': self.pid,
            'tier': self.tier,
            'seed': int(os.environ.get('VERIF_SEED', '0') or 0),
            'level': 'other',
            'coverage': cov,
            'assumptions': self.assumptions,
            'wall_s': round(wall, 3),
            'violations': n_viol,
        }
        evdir = os.path.join(alt, 'evidence') if alt else os.path.join(VERIF, 'evidence')
        os.makedirs(evdir, exist_ok=True)
        with open(os.path.join(evdir, '%s.json' % self.pid), 'w') as f:
            json.dump(ev, f, indent=1, default=str)
        print('%s %s: %d obligations, %d discharged, %d known findings, %d violations (%.1fs; %d entries, %d leaves)' % (
            self.pid, self.tier, len(self.obligations), len(self.obligations) - len(failed), len(seen_known), n_viol,
            wall, st['entries'], st['leaves']))
        if self.errors:
            return 2
        return 1 if n_viol else 0


# -------------------------------------------------------------------- leaf helpers

def is_ok(prog, v):
    """Result::Ok value?"""
    return v[0] == 'adt' and prog.adts[v[1]]['path'] == 'core::result::Result' and v[2] == 0


def is_err(prog, v):
    return v[0] == 'adt' and prog.adts[v[1]]['path'] == 'core::result::Result' and v[2] == 1


def variant_name(prog, v):
    return prog.adts[v[1]]['variants'][v[2]]['name']


def local_site(prog, lf):
    """Innermost frame that is in the analysed crate: (function path, span)."""
    for key, sp, at in reversed(lf.stack):
        inst = prog.instances.get(key.split('::promoted[')[0])
        if inst is not None and inst['crate'] == prog.meta['crate'] and not sp.startswith('/'):
            return key, sp
    key, sp, at = lf.stack[-1]
    return key, sp


def call_path(lf):
    return ' <- '.join('%s (%s)' % (k, sp) for k, sp, _ in reversed(lf.stack))


def guard_text(lf, n_assumed=0):
    return [show_atom(a) for a in lf.facts[n_assumed:]]


def simp_bits(know, bits):
    """Replace symbolic bits that are the same for every allowed value of their leaf."""
    out = []
    for b in bits:
        if isinstance(b, tuple):
            leaf, k = b[0], b[1]
            ng = 1 if len(b) == 3 else 0
            al = know.leaf_allowed(leaf) if know is not None else None
            if al is None and know is not None:
                try:
                    lo_, hi_ = know.leaf_range(leaf)
                    if hi_ - lo_ <= 4096:
                        al = range(lo_, hi_ + 1)
                except Exception:
                    al = None
            if al is not None and len(al) <= 4096:
                vals = set(((v >> k) & 1) ^ ng for v in al)
                if len(vals) == 1:
                    out.append(vals.pop())
                    continue
        out.append(b)
    return tuple(out)


def _full_opq_leaf(bits):
    """If bits are the low k bits (in order) of one opaque trunc/lin/wrap leaf, zero-extended, return (leaf, k)."""
    b0 = bits[0]
    if not isinstance(b0, tuple):
        return None
    leaf = b0[0]
    if leaf[0] != 'opq' or leaf[2] not in ('trunc', 'lin', 'wrap'):
        return None
    k = 0
    for i, b in enumerate(bits):
        if isinstance(b, tuple) and len(b) == 2 and b[0] == leaf and b[1] == i and k == i:
            k += 1
        elif b == 0 and k > 0:
            continue
        else:
            return None
    if k == 0 or k > leaf[1]:
        return None
    return leaf, k


def _low_bits_of_leaf(bits):
    """bits = the low k bits, in order, of one input / length leaf, zero-extended -> (leaf, k)."""
    b0 = bits[0]
    if not (isinstance(b0, tuple) and len(b0) == 2 and b0[1] == 0 and b0[0][0] in ('in', 'len')):
        return None
    leaf = b0[0]
    k = 0
    for i, b in enumerate(bits):
        if isinstance(b, tuple) and len(b) == 2 and b[0] == leaf and b[1] == i and k == i:
            k += 1
        elif b == 0 and k > 0:
            continue
        else:
            return None
    return leaf, k


def simp(know, t):
    """Canonical form of a term under the path knowledge (pinned leaves become constants;
    a truncation whose operand provably fits is replaced by the operand)."""
    if t[0] == 'k':
        return t
    if t[0] == 'bv':
        lk = _full_opq_leaf(t[2])
        if lk is not None:
            leaf, k = lk
            inner = leaf[3] if leaf[2] != 'lin' else ('lin', leaf[1], leaf[3][0], leaf[3][1])
            inner = simp(know, inner)
            if inner[0] == 'k':
                return K(t[1], inner[2] & ((1 << k) - 1))
            if inner[0] == 'lin':
                lo, hi = know.interval(inner[2], dict(inner[3]))
                if lo >= 0 and hi < (1 << k):
                    return mk_lin(t[1], inner[2], dict(inner[3]))
            if inner[0] == 'bv' and k >= inner[1]:
                return mk_bv(t[1], tuple(inner[2]) + (0,) * (t[1] - inner[1])) if t[1] >= inner[1] else t
            return t
        low = _low_bits_of_leaf(t[2])
        if low is not None and know is not None:
            leaf, k = low
            try:
                lo_, hi_ = know.leaf_range(leaf)
                if lo_ >= 0 and hi_ < (1 << k):
                    r_ = mk_lin(t[1], 0, {leaf: 1})     # the low k bits of a value that fits in k bits
                    if r_ != t:
                        if lo_ == hi_:
                            return K(t[1], lo_)
                        return r_ if r_[0] != 'bv' else mk_bv(t[1], simp_bits(know, r_[2]))
            except Exception:
                pass
        return mk_bv(t[1], simp_bits(know, t[2]))
    if t[0] == 'lin':
        c0 = t[2]
        terms = {}
        for l, c in t[3]:
            lo, hi = know.leaf_range(l)
            if lo == hi:
                c0 += c * lo
            else:
                terms[l] = c
        return mk_lin(t[1], c0, terms)
    return t


def eq_under(know, a, b):
    """Are two terms equal for every valuation allowed by `know`? True / False / None (unknown)."""
    a, b = simp(know, a), simp(know, b)
    if a == b:
        return True
    if width(a) != width(b):
        return False
    ls = leaves_of(a) | leaves_of(b)
    doms = []
    total = 1
    for l in ls:
        al = know.leaf_allowed(l)
        if al is None:
            return None if a[0] != 'k' or b[0] != 'k' else False
        doms.append((l, sorted(al)))
        total *= len(al)
        if total > 70000:
            return None
    # exhaustive evaluation over the (small) joint domain
    try:
        import itertools
        for combo in itertools.product(*[d for _, d in doms]):
            env = dict((l, v) for (l, _), v in zip(doms, combo))
            if (eval_term(a, env) & ((1 << width(a)) - 1)) != (eval_term(b, env) & ((1 << width(b)) - 1)):
                return False
        return True
    except CannotEval:
        return None


def buf_layout(lf, name):
    """Final content of an output buffer as (cells: idx->term, segments: list of (lo, n, content), order)."""
    obj = lf.heap.get(name)
    if obj is None or obj[0] != 'buf':
        return None
    cells = {}
    segs = []
    for i, (lo, n, content) in enumerate(obj[2]):
        if content[0] == 'cells' and is_const(lo):
            for j, c in enumerate(content[1]):
                cells[lo[2] + j] = (c, i)
        else:
            segs.append((lo, n, content, i))
    return cells, segs, obj[2]


def allowed_desc(know, leaf, w=8):
    al = know.leaf_allowed(leaf)
    if al is None:
        return 'any'
    vals = sorted(al)
    if len(vals) == (1 << w):
        return 'any'
    if len(vals) == 1:
        return '%02X' % vals[0]
    # ranges
    out = []
    s = p = vals[0]
    for v in vals[1:]:
        if v == p + 1:
            p = v
            continue
        out.append((s, p))
        s = p = v
    out.append((s, p))
    return ','.join('%02X' % a if a == b else '%02X-%02X' % (a, b) for a, b in out)


def in_leaf(*name, w=8, dom=None):
    return ('in', tuple(name), w, dom)


def in_term(*name, w=8, dom=None):
    return mk_lin(w, 0, {in_leaf(*name, w=w, dom=dom): 1})


def describe_result(prog, v):
    """Normalise a decoder / probe result: ('Ok', payload) | ('Err', message type name, error description)."""
    if is_ok(prog, v):
        return ('Ok', v[3][0])
    if is_err(prog, v):
        e = v[3][0]
        if e[0] == 'tuple' and len(e[1]) == 2:
            mt, de = e[1]
            mtn = variant_name(prog, mt) if mt[0] == 'adt' else show_value(mt, prog)
            return ('Err', mtn, describe_error(prog, de))
        return ('Err', None, show_value(e, prog))
    return ('?', show_value(v, prog))


def describe_error(prog, de):
    if de[0] != 'adt':
        return show_value(de, prog)
    name = variant_name(prog, de)
    if not de[3]:
        return name
    inner = de[3][0]
    if inner[0] == 'adt':
        iname = variant_name(prog, inner)
        if inner[3]:
            x = inner[3][0]
            if x[0] == 'adt':
                return (name, iname, variant_name(prog, x))
            return (name, iname, show_value(x, prog))
        return (name, iname)
    return (name, show_value(inner, prog))


def feasible_with(lf, atoms):
    """Knowledge of the leaf extended with extra atoms, or None if that is contradictory."""
    k = lf.know.clone()
    try:
        for a in atoms:
            k.assume(a)
    except Infeasible:
        return None
    return k


def atom_of(t):
    """A width-1 term as an atom (None when it is a constant)."""
    if t[0] == 'atom':
        return t[1]
    return None
