"""C12 - see proc_rules.c12"""
import proc_rules


def run(chk):
    proc_rules.c12(chk)
