"""C05 - see enc_rules.c05"""
import enc_rules


def run(chk):
    enc_rules.c05(chk)
