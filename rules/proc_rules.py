"""Rules over the leaves of process_packet: C11 (agreement with decoding), C12 (response well-formed and
correlated), C13 (EID history, frame argument), C14 (vendor ID enumeration), C15 (configured identity)."""
import itertools
from common import *
from decoder import *
from entries import len_term, len_leaf
import encoders as E
import commands
import enums

ENT = 'process_packet'
BUF = 'response_buf'
CC = enums.COMMAND_CODES


class Row:
    pass


def proc_rows(chk):
    """Return leaves of process_packet with decoded structure."""
    an, prog = chk.an, chk.an.prog
    leaves, na = an.leaves(ENT)
    rows = []
    for i, lf in enumerate(leaves):
        r = Row()
        r.i, r.lf, r.na = i, lf, na
        r.sub = '%s leaf %d' % (ENT, i)
        r.fn, r.sp = local_site(prog, lf)
        r.ok = lf.kind == 'return' and is_ok(prog, lf.value)
        r.pair = None
        r.resp_len = None
        r.responds = False
        if r.ok:
            pay = lf.value[3][0]
            if pay[0] == 'tuple' and len(pay[1]) == 2:
                r.pair = pay[1][0]
                opt = pay[1][1]
                if opt[0] == 'adt' and opt[2] == 1:
                    r.resp_len = opt[3][0]
                    r.responds = True
        r.atoms = E.written_atoms(lf, BUF)
        r.cmd = lf.know.allowed.get(byte_leaf(10))
        rows.append(r)
    return rows, na


def report_unanalysable(chk, rule, rows, na, only_cmd=None):
    """Unanalysable leaves of process_packet: the rule cannot decide the property there - fail closed."""
    prog = chk.an.prog
    n = 0
    for r in rows:
        if r.lf.kind != 'unanalysable':
            continue
        if only_cmd is not None and not (r.cmd is not None and r.cmd & frozenset(only_cmd)):
            continue
        n += 1
        chk.ob(rule, r.sub + ' (unanalysable path)', False,
               chk.key(ENT, rule, r.fn, 'cannot-certify:cmd=%s:%s' % (allowed_desc(r.lf.know, byte_leaf(10)), r.lf.panic[1][:120])),
               'cannot certify: a path of process_packet (command %s) cannot be analysed: %s' % (allowed_desc(r.lf.know, byte_leaf(10)), r.lf.panic[1]),
               site=r.sp, detail={'leaf': dump_leaf(r.lf, prog, na, heap=False), 'call_path': call_path(r.lf)})
    return n


def cmd_is(r, code):
    return r.cmd is not None and r.cmd == frozenset([code])


def pinned(lf, leaf):
    al = lf.know.leaf_allowed(leaf)
    if al is not None and len(al) == 1:
        return next(iter(al))
    return None


def resp_chain(r, strict=False):
    """The response bytes [0, len) in order. Only C11 (strict) insists that nothing beyond len is written."""
    return E.chain(r.lf.know, r.atoms, r.resp_len, allow_beyond=not strict)


def cellval(ordered, i):
    if i < len(ordered) and ordered[i][0] == 'cell':
        return ordered[i][2]
    return None


# ------------------------------------------------------------------------------ C11

def c11(chk):
    an, prog = chk.an, chk.an.prog
    chk.explanation = (
        'Every returning leaf of process_packet is matched with its parent leaf of decode_packet (the unique decoder leaf all of '
        'whose guard atoms the processing leaf\'s guard decides true). C11.a: the (type, payload view) or the error it returns is '
        'structurally identical to the parent\'s. C11.b: a leaf reports Some(len) or writes the response buffer only if its guard '
        'pins type = control and Rq = 1 on an accepted packet. C11.c: every other leaf has an empty write list for the response '
        'buffer and reports None; on responding leaves the written bytes form the gap-free chain [0, len).')
    chk.rules_text = 'R-agree between the leaves of process_packet and decode_packet; R-dom and effect lists on responding / non-responding leaves'
    chk.assumptions = ['process_packet under the valid-configuration precondition; its panic leaves are judged once, by C10']
    rows, na = proc_rows(chk)
    dleaves, dna = an.leaves('ctx.decode_packet')
    n = report_unanalysable(chk, 'C11.a', rows, na)
    for r in rows:
        lf = r.lf
        if lf.kind != 'return':
            continue
        n += 1
        parents = []
        for D in dleaves:
            if D.kind != 'return':
                continue
            ok = True
            for a in D.facts[dna:]:
                if lf.know.decide(a) is not True:
                    ok = False
                    break
            if ok:
                parents.append(D)
        chk.evals(len(dleaves))
        if len(parents) != 1:
            chk.ob('C11.a', r.sub, False, chk.key(ENT, 'C11.a', r.fn, 'parents:%d' % len(parents)),
                   'cannot match the processing path with exactly one decoding path (%d candidates)' % len(parents), site=r.sp,
                   detail={'leaf': dump_leaf(lf, prog, na, heap=False)})
            continue
        D = parents[0]
        dres = D.value
        if is_ok(prog, dres):
            same = r.ok and r.pair == dres[3][0]
            got = show_value(lf.value, prog)
            chk.ob('C11.a', r.sub, same,
                   chk.key(ENT, 'C11.a', r.fn, 'result-differs:decode=%s:process=%s' % (show_value(dres, prog)[:80], got[:80])),
                   'decoding accepts this input as %s but processing returns %s' % (show_value(dres, prog), got), site=r.sp,
                   detail={'leaf': dump_leaf(lf, prog, na, heap=False), 'decoder_leaf': dump_leaf(D, prog, dna)},
                   show='parent decoder leaf gives %s; processing gives %s' % (show_value(dres, prog)[:90], got[:120]))
        else:
            same = is_err(prog, lf.value) and lf.value[3][0] == dres[3][0]
            chk.ob('C11.a', r.sub, same,
                   chk.key(ENT, 'C11.a', r.fn, 'result-differs:decode=%s:process=%s' % (show_value(dres, prog)[:80], show_value(lf.value, prog)[:80])),
                   'decoding rejects this input with %s but processing returns %s' % (show_value(dres, prog), show_value(lf.value, prog)),
                   site=r.sp, detail={'leaf': dump_leaf(lf, prog, na, heap=False)})
        # C11.b / C11.c
        wrote = bool(r.atoms) or any(e[0] == 'outwrite' for e in lf.effects)
        if r.responds or wrote:
            t9 = lf.know.leaf_allowed(byte_leaf(9))
            is_ctl = is_ok(prog, dres) and dres[3][0][0] == 'tuple' and dres[3][0][1][0][0] == 'adt' and \
                variant_name(prog, dres[3][0][1][0]) == 'MCtpControl'
            is_req = r.ok and is_ctl and t9 is not None and all(v >> 7 for v in t9)
            chk.ob('C11.b', r.sub, is_req,
                   chk.key(ENT, 'C11.b', r.fn, 'responds-to-non-request:type=%s:hdr=%s' % (allowed_desc(lf.know, byte_leaf(8)), allowed_desc(lf.know, byte_leaf(9)))),
                   'processing writes a response for an input that is not an accepted control request (type %s, control header %s, result %s)' % (
                       allowed_desc(lf.know, byte_leaf(8)), allowed_desc(lf.know, byte_leaf(9)), show_value(lf.value, prog)[:80]),
                   site=r.sp, detail={'leaf': dump_leaf(lf, prog, na)})
            if r.responds:
                ordered, why = resp_chain(r, strict=True)
                chk.ob('C11.c', r.sub + ' range', ordered is not None,
                       chk.key(ENT, 'C11.c', r.fn, 'range:cmd=%s:%s' % (allowed_desc(lf.know, byte_leaf(10)), why)),
                       'the response does not occupy exactly the reported %s bytes: %s' % (show_term(simp(lf.know, r.resp_len)), why),
                       site=r.sp, detail={'leaf': dump_leaf(lf, prog, na)})
            else:
                chk.ob('C11.c', r.sub, False, chk.key(ENT, 'C11.c', r.fn, 'writes-without-reporting:cmd=%s' % allowed_desc(lf.know, byte_leaf(10))),
                       'the response buffer is written although no response length is reported', site=r.sp,
                       detail={'leaf': dump_leaf(lf, prog, na)})
        else:
            chk.ob('C11.c', r.sub, True)
    chk.floor('returning leaves of process_packet (plus reported unanalysable paths)', n, 40)


# ------------------------------------------------------------------------------ C12

def c12(chk):
    an, prog = chk.an, chk.an.prog
    chk.explanation = (
        'On every responding leaf of process_packet the assembled response buffer is compared with the reference packet: SMBus '
        'framing with destination = the request\'s source (byte 6 of the request, which by the property\'s precondition names the '
        'same requester as byte 3 >> 1) and source = the responder\'s own address, exact byte count, transport header, message '
        'type control, control header with Rq 0, D 0, reserved 0 and instance ID = bits 4..0 of the request\'s byte 9, the command '
        'code the leaf\'s guard pins the request\'s byte 10 to, a completion code, the PEC over everything before it, and the '
        'reported length. The summary of MCTPSMBusContext::new shows that both halves hold the address given at construction.')
    chk.rules_text = 'R-layout (bit level) on the response of every responding leaf; summary of the constructor'
    chk.assumptions = ['requests whose SMBus source address and source endpoint ID name the same requester (stated in the property)',
                       'process_packet under the valid-configuration precondition']
    rows, na = proc_rows(chk)

    class FakeEnc:
        key = ENT
        entry = ENT
        inst = prog.instances[an.entries[ENT]['key']]
    n = report_unanalysable(chk, 'C12.layout', rows, na)
    for r in rows:
        if not r.responds:
            continue
        n += 1
        lf, know = r.lf, r.lf.know
        ordered, why = resp_chain(r)
        if ordered is None:
            chk.ob('C12.layout', r.sub, False, chk.key(ENT, 'C12.layout', r.fn, 'layout:cmd=%s:%s' % (allowed_desc(know, byte_leaf(10)), why)),
                   'cannot lay out the response: %s' % why, site=r.sp, detail={'leaf': dump_leaf(lf, prog, na)})
            continue
        dest = in_term('packet', 6)
        own = in_term('self', 'response', 'address')
        items = E.header_items(None, r.resp_len, dest=dest, own=own, msg_type=K(8, 0x00))
        cmdv = pinned(lf, byte_leaf(10))
        p9 = bits_of(in_term('packet', 9))
        items.append(('cell', mk_bv(8, tuple(p9[0:5]) + (0, 0, 0))))       # 9: Rq 0, D 0, rsvd 0, instance of the request
        items.append(('cell', in_term('packet', 10)))                       # 10: the command code of the request
        names = ['dest address', 'command code', 'byte count', 'source address', 'header version', 'destination EID',
                 'source EID', 'SOM/EOM/seq flags', 'message type', 'control header (Rq/D/instance)', 'command code']
        for i, it in enumerate(items):
            a = cellval(ordered, i)
            chk.evals()
            if i == 7:
                ok = a is not None and tuple(bits_of(simp(know, a))[4:8]) == (0, 0, 1, 1)
            elif i == 0:
                # the requester's SMBus address: bits 7..1 of the request's byte 3, or (same requester, by the property's
                # precondition) the low seven bits of its source endpoint ID
                p3 = bits_of(in_term('packet', 3))
                alt = mk_bv(8, (0,) + tuple(p3[1:8]))
                ok = a is not None and (eq_under(know, a, it[1]) is True or eq_under(know, a, alt) is True)
            else:
                ok = a is not None and eq_under(know, a, it[1]) is True
            got = show_term(simp(know, a)) if a is not None else 'nothing'
            exp = show_term(simp(know, it[1])) if i != 7 else 'SOM=1 EOM=1 seq=0'
            construct = 'cell:%d:%s:expected=%s:actual=%s' % (i, names[i], exp if i != 10 else 'request-command', got if i != 10 else 'other')
            if i == 9:
                construct = 'cell:9:instance-id-not-echoed:actual=%s' % got
            chk.ob('C12.layout', '%s byte %d' % (r.sub, i), ok, chk.key(ENT, 'C12.layout', r.fn, construct),
                   'response to command %s: %s (byte %d) is %s, expected %s' % (allowed_desc(know, byte_leaf(10)), names[i], i, got, exp),
                   site=r.sp, detail={'leaf': dump_leaf(lf, prog, na)})
        cc = cellval(ordered, 11)
        ccs = simp(know, cc) if cc is not None else None
        chk.ob('C12.layout', '%s completion code' % r.sub, ccs is not None and is_const(ccs) and ccs[2] <= 5,
               chk.key(ENT, 'C12.layout', r.fn, 'cell:11:completion-code:%s' % (show_term(ccs) if ccs is not None else None)),
               'response byte 11 is %s, not a completion code' % (show_term(ccs) if ccs is not None else 'missing'), site=r.sp)
        bad = E.pec_check(lf, know, ordered, BUF, r.resp_len)
        chk.ob('C12.pec', r.sub, bad is None, chk.key(ENT, 'C12.pec', r.fn, 'pec:cmd=%s:%s' % (allowed_desc(know, byte_leaf(10)), bad)),
               'the response does not end with the PEC of all its preceding bytes: %s' % bad, site=r.sp,
               detail={'leaf': dump_leaf(lf, prog, na)})
    # constructor summary: both halves carry the address argument
    if 'ctx.new' in an.entries:
        leaves, cna = an.leaves('ctx.new')
        ok = False
        if len(leaves) == 1 and leaves[0].kind == 'return' and leaves[0].value[0] == 'adt':
            v = leaves[0].value
            try:
                ra = role_value(an, prog, v, ('request', 'address'))
                pa = role_value(an, prog, v, ('response', 'address'))
                ok = ra == pa == in_term(param_names(prog, an.entries['ctx.new']['key'])[0])
            except Exception:
                ok = False
        chk.ob('C12.new', 'MCTPSMBusContext::new', ok, chk.key('ctx.new', 'C12.new', an.entries['ctx.new']['key'], 'address-not-shared'),
               'MCTPSMBusContext::new does not give both halves the address it was constructed with')
    chk.floor('responding leaves (plus reported unanalysable paths)', n, 20)


def role_value(an, prog, v, role, table='ctx'):
    """The sub-value of a context value `v` that plays `role` ('uuid', 'msg_types', ...): found through the roles
    discovered from the public API (engine/roles.py), not through the private field's name."""
    an.rename_tables()
    path = None
    want = ('self',) + (role if isinstance(role, tuple) else (role,))
    for actual, canon in an.roles_found.get(table, []):
        if canon == want:
            path = actual[1:]
    if path is None:
        raise KeyError(role)
    for nm in path:
        v = struct_field(prog, v, nm)
    return v


def get_eid_of(an, tag, half_value, facts=()):
    """What `get_eid()` returns on a half (request/response context) whose value is `half_value`, under `facts`:
    summary composition - the getter is interpreted on that state.  -> list of return leaves, or None when a path of the
    getter does not return.  Makes the C13 rules independent of how the cell represents the EID."""
    ent = 'trait.%s.get_eid' % tag
    if ent not in an.entries:
        return None
    key = an.entries[ent]['key']

    def make(interp, st, inst):
        st.heap['self'] = half_value
        return [('ref', (('heap', 'self'), ()))]

    def assume(interp, st):
        return list(facts)
    try:
        leaves, na = an.run_custom(key, make, assume=assume)
    except Exception:
        return None
    if not leaves or any(l.kind != 'return' for l in leaves):
        return None
    return leaves


def eid_is(an, tag, half_value, facts, want):
    rets = get_eid_of(an, tag, half_value, facts)
    return bool(rets) and all(eq_under(l.know, l.value, want) is True for l in rets)


def half_value_of(an, prog, ctx_value, name):
    """The request / response half inside a whole-context value, through the discovered role path."""
    an.rename_tables()
    for actual, canon in an.roles_found.get('ctx_halves', []):
        if canon == ('self', name):
            v = ctx_value
            for nm in actual[1:]:
                v = struct_field(prog, v, nm)
            return v
    raise KeyError(name)


def param_names(prog, key):
    inst = prog.instances[key]
    names = dict((a, n) for a, n in inst['body']['names'])
    return [names.get(i + 1, 'arg%d' % (i + 1)) for i in range(len(inst['sig']['inputs']))]


def struct_field(prog, v, name):
    adt = prog.adts[v[1]]
    for i, f in enumerate(adt['variants'][0]['fields']):
        if f['name'] == name:
            return v[3][i]
    raise KeyError(name)


# ------------------------------------------------------------------------------ L0 frame scan

CELL_MUTATORS = ('set', 'replace', 'swap', 'take', 'get_mut', 'as_ptr', 'from_mut', 'update', 'as_slice_of_cells', 'as_array_of_cells')
CONTEXT_ADTS = ('smbus::MCTPSMBusContext', 'smbus_request::MCTPSMBusContextRequest', 'smbus_response::MCTPSMBusContextResponse')


def _locals_used(j):
    out = []
    if isinstance(j, dict):
        if j.get('k') in ('copy', 'move') and 'place' in j:
            out.append(j['place']['local'])
        for v in j.values():
            out += _locals_used(v)
    elif isinstance(j, list):
        for v in j:
            out += _locals_used(v)
    return out


def frame_scan(prog):
    """L0 facts over every body of the crate: calls of Cell mutators, &mut-taking methods of the context
    structs, raw-pointer / transmute constructs."""
    cell_calls, mut_fns, raw = [], [], []
    setter_calls = []
    for key, inst in prog.instances.items():
        if not inst['local'] or inst['crate'] != prog.meta['crate']:
            continue
        if ' as core::fmt::Debug>' in key:
            continue
        sig = inst['sig']
        if sig:
            for t in sig['inputs']:
                if t['k'] == 'ref' and t['mut'] and t['to']['k'] == 'adt' and t['to']['path'] in CONTEXT_ADTS:
                    mut_fns.append(key)
        raw_locals = {}
        for b in inst['body']['blocks']:
            for s in b['stmts']:
                if s['k'] == 'assign' and s['rv']['k'] == 'rawptr':
                    if s['place']['proj']:
                        raw.append((key, 'raw pointer stored through a projection', s['span']['at']))
                    else:
                        raw_locals[s['place']['local']] = s['span']['at']
        for b in inst['body']['blocks']:
            for s in b['stmts']:
                if s['k'] == 'assign':
                    rv = s['rv']
                    if rv['k'] == 'cast' and (rv['ck'].startswith('Transmute') or rv['ck'] in ('PtrToPtr', 'PointerExposeProvenance', 'PointerWithExposedProvenance')):
                        raw.append((key, rv['ck'], s['span']['at']))
                    # a raw pointer may only feed PtrMetadata (the length read of a bounds check)
                    if not (rv['k'] == 'unop' and rv['op'] == 'PtrMetadata'):
                        for l in _locals_used(rv):
                            if l in raw_locals:
                                raw.append((key, 'raw pointer used other than for a length read', raw_locals[l]))
            if b['term']['k'] in ('call', 'switch', 'assert'):
                for l in _locals_used(b['term']):
                    if l in raw_locals:
                        raw.append((key, 'raw pointer escapes into a call', raw_locals[l]))
            t = b['term']
            if t['k'] == 'call':
                p = t['callee']['path']
                if p.startswith('core::cell::') :
                    meth = p.split('::')[-1]
                    if meth in CELL_MUTATORS or meth not in ('get', 'new', 'into_inner'):
                        cell_calls.append((key, meth, b['span']['at']))
                if p.endswith('::set_eid') or (t['callee'].get('decl_path') or '').endswith('::set_eid'):
                    setter_calls.append((key, t['callee']['key'], b['span']['at']))
    return cell_calls, mut_fns, raw, setter_calls


# ------------------------------------------------------------------------------ C13

def covered_after(chk):
    """Instances interpreted as part of some analysed entry point (forces the scan of all entries first)."""
    an = chk.an
    if not getattr(chk, '_all_entries_done', False):
        for name in sorted(an.entries):
            an.leaves(name)
        chk._all_entries_done = True
    return an.interp_stats['instances']


def c13(chk):
    an, prog = chk.an, chk.an.prog
    chk.explanation = (
        'A history property decided by a frame argument. C13.a (who-may-write, over every body in the crate): the only calls of '
        'Cell mutators are the two set_eid accessors and the two selector updates in process_packet; the only callers of set_eid '
        'are the two sites in process_packet; no function of the crate builds a raw pointer or transmutes; the only method taking '
        'the context mutably is set_uuid; the EID cells are private fields initialised to 0 by the constructors. C13.b (R-dom on '
        'process_packet): the leaves that write an EID cell have in their guard: accepted (PEC atom), control, Rq = 1, command 0x01, '
        'operation 0 or 1; both cells receive the same term, byte 12 of the request; the response carries completion code 0, status '
        '0 and the cell as read AFTER the write. C13.c: no other leaf of process_packet, and no leaf of decode_packet, get_length or '
        'any encoder, writes an EID cell; the Set-Discovered-Flag leaf answers completion code 2 without writing. C13.d: get_eid of '
        'each half returns its cell, set_eid stores its argument. Induction over histories from these premises gives the statement; '
        'the induction is argued in DESIGN.md, the premises are what is decided.')
    chk.rules_text = 'R-frame over all bodies (L0), R-dom and effect lists over the leaves of every analysed entry point'
    chk.assumptions = ['the inductive step from per-operation facts and the frame to histories is an argument in DESIGN.md',
                       'no unsafe code elsewhere (dependencies) aliases the private cells; the crate itself builds no raw pointer (checked)']
    # ---- C13.a
    cell_calls, mut_fns, raw, setter_calls = frame_scan(prog)
    expected_cell = {('<smbus_request::MCTPSMBusContextRequest as mctp_traits::SMBusMCTPRequestResponse>::set_eid', 'replace'),
                     ('<smbus_response::MCTPSMBusContextResponse as mctp_traits::SMBusMCTPRequestResponse>::set_eid', 'replace'),
                     ("smbus::MCTPSMBusContext::<'_>::process_packet", 'set')}
    got_cell = set((k, m) for k, m, _ in cell_calls)
    for k, m, at in cell_calls:
        # a function the interpreter covers has its cell writes judged precisely (with the cell's path) by C13.b/c below
        ok = (k, m) in expected_cell or (k.endswith('::set_eid') and m in ('set', 'replace')) or k in covered_after(chk)
        chk.ob('C13.a', 'cell mutation in %s' % k, ok, chk.key('crate', 'C13.a', k, 'cell-mutator:%s' % m),
               'state cell mutated by an unexpected function: %s calls Cell::%s' % (k, m), site=at)
    for k, callee, at in setter_calls:
        # callers the interpreter covers are judged path by path (C13.b: the guard of every leaf that writes an EID cell)
        ok = k == "smbus::MCTPSMBusContext::<'_>::process_packet" or k in covered_after(chk)
        chk.ob('C13.a', 'set_eid call in %s' % k, ok, chk.key('crate', 'C13.a', k, 'set_eid-caller'),
               'set_eid is called from %s (only the Set Endpoint ID handler may assign the EID)' % k, site=at)
    for k, what, at in raw:
        chk.ob('C13.a', 'raw pointer in %s' % k, False, chk.key('crate', 'C13.a', k, 'raw:%s' % what),
               '%s in %s: the who-may-write argument does not cover raw pointers' % (what, k), site=at)
    for k in mut_fns:
        chk.ob('C13.a', '&mut context in %s' % k, k.endswith('::set_uuid'), chk.key('crate', 'C13.a', k, 'mut-context'),
               '%s takes the context mutably (only set_uuid is expected to)' % k)
    # visibility of the cells
    for adt_id in CONTEXT_ADTS:
        for aid, adt in prog.adts.items():
            if adt['path'] == adt_id:
                for f in adt['variants'][0]['fields']:
                    chk.ob('C13.e', '%s.%s private' % (adt_id, f['name']), f['vis'] != 'pub',
                           chk.key('crate', 'C13.e', adt_id, 'public-field:%s' % f['name']),
                           'field %s of %s is public: outside code can change the state without the accessors' % (f['name'], adt_id))
    # constructors initialise the cells with 0
    for ent, half in (('req-state.new', 'request'), ('resp-state.new', 'response')):
        if ent in an.entries:
            leaves, _ = an.leaves(ent)
            ok = len(leaves) == 1 and leaves[0].kind == 'return'
            if ok:
                v = leaves[0].value
                try:
                    ok = eid_is(an, 'Req' if half == 'request' else 'Resp', v, leaves[0].facts, K(8, 0))
                except Exception:
                    ok = False
            chk.ob('C13.a', '%s initial EID' % ent, ok, chk.key(ent, 'C13.a', an.entries[ent]['key'], 'initial-eid'),
                   'the %s half is not constructed with EID 0' % half)
    # ---- C13.b / C13.c on process_packet
    rows, na = proc_rows(chk)
    pa = pec_atom()
    REQ_EID, RESP_EID = 'self.request.eid', 'self.response.eid'
    n_assign = report_unanalysable(chk, 'C13.b', rows, na)
    for r in rows:
        lf, know = r.lf, r.lf.know
        writes = [(e[1], e[2]) for e in lf.effects if e[0] == 'cellwrite' and e[1].endswith('.eid')]
        if not writes:
            continue
        n_assign += 1
        chk.evals()
        op = know.leaf_allowed(byte_leaf(11))
        is_ctl = r.pair is not None and r.pair[0] == 'tuple' and r.pair[1][0][0] == 'adt' and variant_name(prog, r.pair[1][0]) == 'MCtpControl'
        guard_ok = (pec_state(lf, pa) is True and (is_ctl or lf.kind != 'return') and
                    all(v >> 7 for v in know.leaf_allowed(byte_leaf(9))) and cmd_is(r, CC['SetEndpointID']) and
                    op is not None and op <= frozenset([0, 1]))
        chk.ob('C13.b', r.sub + ' guard', guard_ok,
               chk.key(ENT, 'C13.b', r.fn, 'eid-written-outside-set/force:cmd=%s:op=%s' % (allowed_desc(know, byte_leaf(10)), allowed_desc(know, byte_leaf(11)))),
               'the EID is assigned on a path that is not an accepted Set Endpoint ID request with operation Set/Force (command %s, operation %s)' % (
                   allowed_desc(know, byte_leaf(10)), allowed_desc(know, byte_leaf(11))), site=r.sp, detail={'leaf': dump_leaf(lf, prog, na)})
        want = in_term('packet', 12)
        targets = dict(writes)
        both = set(targets) == {REQ_EID, RESP_EID} and len(writes) == 2
        if both:
            try:
                selfv = lf.heap.get('self')
                both = all(eid_is(an, tag, half_value_of(an, prog, selfv, nm), lf.facts, want) for nm, tag in (('request', 'Req'), ('response', 'Resp')))
            except Exception:
                both = False
        chk.ob('C13.b', r.sub + ' both halves', both,
               chk.key(ENT, 'C13.b', r.fn, 'halves:%s' % ','.join('%s=%s' % (k, show_term(v)) for k, v in sorted(targets.items()))),
               'an accepted assignment does not store the requested EID (request byte 12) in both halves: %s' % ', '.join('%s := %s' % (k, show_term(v)) for k, v in writes),
               site=r.sp, detail={'leaf': dump_leaf(lf, prog, na)},
               show='guard [%s]: %s' % ('; '.join(guard_text(lf, na)[-4:]), ', '.join('%s := %s' % (k, show_term(v)) for k, v in writes)))
        if lf.kind == 'return' and r.responds:
            ordered, why = resp_chain(r)
            ok = ordered is not None
            if ok:
                cc, status, eid, pool = (cellval(ordered, i) for i in (11, 12, 13, 14))
                ok = all(x is not None for x in (cc, status, eid, pool)) and eq_under(know, cc, K(8, 0)) is True and \
                    eq_under(know, status, K(8, 0)) is True and eq_under(know, eid, want) is True
                # (the answer's EID byte equals the requested EID, which is also what both cells now hold: whether the
                # encoder re-reads the cell or uses the request byte is not observable and not demanded)
            chk.ob('C13.b', r.sub + ' answer', ok, chk.key(ENT, 'C13.b', r.fn, 'assignment-answer'),
                   'an accepted assignment is not answered with Success, status accepted and the new EID', site=r.sp,
                   detail={'leaf': dump_leaf(lf, prog, na)})
        elif lf.kind == 'return':
            chk.ob('C13.b', r.sub + ' answer', False, chk.key(ENT, 'C13.b', r.fn, 'assignment-not-answered'),
                   'an accepted assignment is not answered', site=r.sp)
    chk.floor('assigning leaves of process_packet', n_assign, 1)
    # every accepted Set/Force request must assign (partition: the assigning leaves cover op 0 and 1)
    covered = set()
    for r in rows:
        if r.lf.kind == 'return' and r.ok and cmd_is(r, CC['SetEndpointID']) and all(v >> 7 for v in r.lf.know.leaf_allowed(byte_leaf(9))):
            ops = r.lf.know.leaf_allowed(byte_leaf(11))
            wrote = any(e[0] == 'cellwrite' and e[1].endswith('.eid') for e in r.lf.effects)
            for o in ops:
                if o in (0, 1):
                    covered.add((o, wrote))
                if o == 3:
                    # Set Discovered Flag: answered with ErrorInvalidData, nothing assigned
                    ordered, why = resp_chain(r) if r.responds else (None, 'no response')
                    cc = cellval(ordered, 11) if ordered else None
                    ok = (not wrote) and cc is not None and eq_under(r.lf.know, cc, K(8, 2)) is True
                    chk.ob('C13.c', r.sub + ' set-discovered-flag', ok, chk.key(ENT, 'C13.c', r.fn, 'set-discovered-flag'),
                           'a Set-Discovered-Flag request is not answered with ErrorInvalidData / changes the EID', site=r.sp,
                           detail={'leaf': dump_leaf(r.lf, prog, na)})
    for o in (0, 1):
        chk.ob('C13.b', 'operation %d assigns' % o, (o, True) in covered and (o, False) not in covered,
               chk.key(ENT, 'C13.b', ENT, 'operation-%d-does-not-always-assign' % o),
               'an accepted Set Endpoint ID request with operation %d does not (always) assign the EID' % o)
    # ---- C13.c: nobody else writes
    n_entries = 0
    for name in sorted(an.entries):
        if name in (ENT,) or name.split('.')[0] in ('from', 'view'):
            continue
        if name.endswith('.set_eid'):
            continue
        try:
            leaves, ena = an.leaves(name)
        except Exception as ex:
            chk.ob('C13.c', name, False, chk.key(name, 'C13.c', name, 'cannot-analyse'), 'cannot analyse %s: %s' % (name, ex))
            continue
        n_entries += 1
        for i, lf in enumerate(leaves):
            w = [e for e in lf.effects if e[0] == 'cellwrite' and e[1].endswith('eid')]
            chk.evals()
            if w:
                fn, sp = local_site(prog, lf)
                chk.ob('C13.c', '%s leaf %d' % (name, i), False, chk.key(name, 'C13.c', fn, 'cell-written:%s' % w[0][1]),
                       '%s writes the state cell %s' % (name, w[0][1]), site=sp, detail={'leaf': dump_leaf(lf, prog, ena, heap=False)})
        chk.ob('C13.c', name, True, nontrivial=False)
    chk.floor('entry points scanned for cell writes', n_entries, 30)
    # ---- C13.d accessors
    for half, tag in (('Req', 'request'), ('Resp', 'response')):
        g = 'trait.%s.get_eid' % half
        s = 'trait.%s.set_eid' % half
        for ent in (g, s):
            chk.ob('C13.d', ent + ' present', ent in an.entries, chk.key(ent, 'C13.d', ent, 'missing'), 'accessor %s not found' % ent)
        if g in an.entries:
            leaves, _ = an.leaves(g)
            ok = bool(leaves) and all(l.kind == 'return' and eq_under(l.know, l.value, in_term('self', 'eid')) is True and
                                      not [e for e in l.effects if e[0] == 'cellwrite'] for l in leaves)
            chk.ob('C13.d', g, ok, chk.key(g, 'C13.d', an.entries[g]['key'], 'get_eid-not-the-cell'),
                   'get_eid of the %s half does not return the content of its EID cell' % tag)
        if s in an.entries:
            leaves, _ = an.leaves(s)
            w = [e for e in leaves[0].effects if e[0] == 'cellwrite'] if leaves else []
            pn = param_names(prog, an.entries[s]['key'])[1]
            ok = bool(leaves)
            for l in leaves:
                w = [e for e in l.effects if e[0] == 'cellwrite']
                ok = ok and l.kind == 'return' and len(w) == 1 and w[0][1] == 'self.eid' and \
                    eid_is(an, half, l.heap.get('self'), l.facts, in_term(pn))
            chk.ob('C13.d', s, ok, chk.key(s, 'C13.d', an.entries[s]['key'], 'set_eid-not-the-cell'),
                   'set_eid of the %s half does not store its argument in its EID cell' % tag)


# ------------------------------------------------------------------------------ C14

def c14(chk):
    an, prog = chk.an, chk.an.prog
    chk.explanation = (
        'On the Get Vendor Defined Message Support leaves of process_packet, under 1 <= n <= 16 configured sets and selector i < n: '
        'R-class - for every pair (i, n) in range (136 pairs) the leaf whose relational guard holds for that pair is found by '
        'evaluating its guard atoms, and its next-selector byte, evaluated at the pair, must be 0xFF iff i + 1 = n, else i + 1. '
        'R-layout: completion code 0; the vendor field is the i-th configured set - format 0: 00, ID bits 15..8, 7..0, numeric '
        'value bits 15..8, 7..0; format 1: 01, four ID bytes most-significant first, numeric value most-significant first - '
        'compared bit by bit on symbolic configuration values. The selector cell is written before it is read (checked by C02.c '
        'too), so each answer depends on the current request only; "sees every set exactly once, in order, then stops" is the '
        'corollary by induction on i, argued in DESIGN.md.')
    chk.rules_text = 'R-class over the 136 (selector, count) pairs by evaluating leaf guards and terms; bit-level R-layout of the vendor field'
    chk.assumptions = ['1 <= n <= 16 vendor ID sets, every format 0 or 1, selector below n (the property\'s range)',
                       'induction on the selector from the per-request fact is argued in DESIGN.md']
    rows, na = proc_rows(chk)
    sel = byte_leaf(11)
    nleaf = len_leaf('self', 'vendor_ids')
    idx = mk_lin(USIZE, 0, {sel: 1})
    fmt = ('in', ('self', 'vendor_ids', idx, 'format'), 8, (0, 1))
    data = ('in', ('self', 'vendor_ids', idx, 'data'), 32, None)
    num = ('in', ('self', 'vendor_ids', idx, 'numeric_value'), 16, None)

    def byte_of(leaf, sh):
        return mk_bv(8, tuple((leaf, sh + k) for k in range(8)))
    vrows = [r for r in rows if r.responds and cmd_is(r, CC['GetVendorDefinedMessageSupport'])]
    n_un = report_unanalysable(chk, 'C14.layout', rows, na, only_cmd=[CC['GetVendorDefinedMessageSupport']])
    inrange = []
    for r in vrows:
        # selector < n on this leaf?
        a = mk_cmp('Lt', mk_lin(USIZE, 0, {sel: 1}), mk_lin(USIZE, 0, {nleaf: 1}))
        d = r.lf.know.decide(a[1]) if a[0] == 'atom' else bool(a[2])
        if d is True:
            inrange.append(r)
    chk.floor('in-range vendor support leaves (plus reported unanalysable paths)', len(inrange) + n_un, 4)
    for r in inrange:
        lf, know = r.lf, r.lf.know
        ordered, why = resp_chain(r)
        if ordered is None:
            chk.ob('C14.layout', r.sub, False, chk.key(ENT, 'C14.layout', r.fn, 'layout:' + str(why)), 'cannot lay out the response: %s' % why, site=r.sp)
            continue
        f = pinned(lf, fmt)
        if f == 0:
            exp = [K(8, 0), byte_of(data, 8), byte_of(data, 0), byte_of(num, 8), byte_of(num, 0)]
        elif f == 1:
            exp = [K(8, 1), byte_of(data, 24), byte_of(data, 16), byte_of(data, 8), byte_of(data, 0), byte_of(num, 8), byte_of(num, 0)]
        else:
            chk.ob('C14.layout', r.sub, False, chk.key(ENT, 'C14.layout', r.fn, 'format-not-pinned'),
                   'the vendor field is built on a path that has not distinguished PCI from IANA', site=r.sp)
            continue
        cc = cellval(ordered, 11)
        chk.ob('C14.layout', r.sub + ' completion code', cc is not None and eq_under(know, cc, K(8, 0)) is True,
               chk.key(ENT, 'C14.layout', r.fn, 'completion-code:format=%d' % f), 'an in-range selector is not answered with Success', site=r.sp)
        body = ordered[13:-1]
        chk.evals(len(exp))
        ok = len(body) == len(exp) and all(b[0] == 'cell' and eq_under(know, b[2], e) is True for b, e in zip(body, exp))
        got = ' '.join(show_term(simp(know, b[2])) if b[0] == 'cell' else 'copy' for b in body)
        chk.ob('C14.layout', r.sub + ' vendor field', ok,
               chk.key(ENT, 'C14.layout', r.fn, 'vendor-field:format=%d:actual=%s' % (f, got)),
               'the vendor ID field for a %s set is [%s], expected [%s]' % ('PCI' if f == 0 else 'IANA', got, ' '.join(show_term(e) for e in exp)),
               site=r.sp, detail={'leaf': dump_leaf(lf, prog, na)}, show='format %d: vendor field [%s]' % (f, got))
    # R-class over (i, n)
    pairs = 0
    for n in range(1, 17):
        for i in range(n):
            env = {sel: i, nleaf: n}
            for f in (0, 1):
                pairs += 1
                hits = []
                for r in inrange:
                    if pinned(r.lf, fmt) != f:
                        continue
                    try:
                        if all(eval_atom(a, env) for a in r.lf.facts[na:] if atom_leaves(a) <= {sel, nleaf}):
                            hits.append(r)
                    except CannotEval:
                        hits.append(r)
                want = 0xFF if i + 1 == n else i + 1
                ok = len(hits) >= 1
                got = None
                for h in hits:
                    ordered, why = resp_chain(h)
                    c = cellval(ordered, 12) if ordered else None
                    try:
                        got = eval_term(c, env) & 0xFF if c is not None else None
                    except CannotEval:
                        got = None
                    ok = ok and got == want
                chk.evals()
                chk.ob('C14.selector', 'selector %d of %d (format %d)' % (i, n, f), ok,
                       chk.key(ENT, 'C14.selector', ENT, 'pair:i=%d:n=%d:expected=%02X:actual=%s' % (i, n, want, got)),
                       'selector %d of %d configured sets is answered with next selector %s, expected 0x%02X (%d matching paths)' % (
                           i, n, ('0x%02X' % got) if got is not None else 'unknown', want, len(hits)),
                       nontrivial=(i + 1 == n or i == 0))
    chk.extra['pairs_evaluated'] = pairs
    chk.floor('(selector, count, format) triples', pairs, 272)


# ------------------------------------------------------------------------------ C15

def c15(chk):
    an, prog = chk.an, chk.an.prog
    chk.explanation = (
        'Get Message Type Support leaves (the list length is case-split 0..30 by the interpreter, 31 leaves): byte 12 = the count, '
        'bytes 13.. = msg_types[0..count) in order, nothing else. Get Endpoint UUID leaf: bytes 12..27 = uuid[0..16). Get MCTP '
        'Version Support leaf: 01 F1 F3 F1 00. All with completion code 0. R-frame: the uuid array is written only by the '
        'constructor (zeros) and by set_uuid (a whole-array copy of its argument); msg_types is a borrowed slice nobody can write. '
        'R-dep: the free symbols of these three answers are within {msg_types, uuid, request byte 6, own address}: no state cell, '
        'so no dependence on traffic.')
    chk.rules_text = 'R-layout on three kinds of responding leaves; R-frame (heap writes over all analysed entries + L0 scan); R-dep on free symbols'
    chk.assumptions = ['at most 30 configured message types (the documented maximum; more makes the encoder refuse and the handler panic, outside "validly configured")']
    rows, na = proc_rows(chk)
    n_un = report_unanalysable(chk, 'C15.layout', rows, na, only_cmd=[CC['GetMessageTypeSupport'], CC['GetEndpointUUID'], CC['GetMCTPVersionSupport']])
    counts = set()
    for r in rows:
        if not r.responds:
            continue
        lf, know = r.lf, r.lf.know
        which = None
        if cmd_is(r, CC['GetMessageTypeSupport']):
            which = 'types'
        elif cmd_is(r, CC['GetEndpointUUID']):
            which = 'uuid'
        elif cmd_is(r, CC['GetMCTPVersionSupport']):
            which = 'version'
        if which is None:
            continue
        ordered, why = resp_chain(r)
        if ordered is None:
            chk.ob('C15.layout', r.sub, False, chk.key(ENT, 'C15.layout', r.fn, 'layout:%s:%s' % (which, why)), 'cannot lay out the response: %s' % why, site=r.sp)
            continue
        if which == 'types':
            lo, hi = know.leaf_range(len_leaf('self', 'msg_types'))
            if lo != hi:
                chk.ob('C15.layout', r.sub, False, chk.key(ENT, 'C15.layout', r.fn, 'types:length-not-pinned'),
                       'the message type list length is not determined on this path', site=r.sp)
                continue
            counts.add(lo)
            exp = [K(8, lo)] + [in_term('self', 'msg_types', j) for j in range(lo)]
        elif which == 'uuid':
            exp = [in_term('self', 'uuid', j) for j in range(16)]
        else:
            exp = [K(8, x) for x in (0x01, 0xF1, 0xF3, 0xF1, 0x00)]
        cc = cellval(ordered, 11)
        body = ordered[12:-1]
        chk.evals(len(exp) + 1)
        ok = cc is not None and eq_under(know, cc, K(8, 0)) is True and len(body) == len(exp) and \
            all(b[0] == 'cell' and eq_under(know, b[2], e) is True for b, e in zip(body, exp))
        got = ' '.join(show_term(simp(know, b[2])) if b[0] == 'cell' else 'copy' for b in body)
        chk.ob('C15.layout', r.sub + ' ' + which, ok,
               chk.key(ENT, 'C15.layout', r.fn, '%s:n=%d:actual=%s' % (which, len(exp), got[:120])),
               'the answer to the %s query is cc=%s [%s], expected Success [%s]' % (
                   which, show_term(simp(know, cc)) if cc is not None else '?', got, ' '.join(show_term(e) for e in exp)),
               site=r.sp, detail={'leaf': dump_leaf(lf, prog, na)}, show='%s query answered with [%s]' % (which, got[:160]))
        # R-dep
        syms = set()
        for a in ordered:
            if a[0] == 'cell':
                syms |= leaves_of(a[2])
        bad = [l for l in syms if not dep_allowed(l)]
        chk.ob('C15.dep', r.sub, not bad,
               chk.key(ENT, 'C15.dep', r.fn, '%s:depends-on:%s' % (which, ','.join(sorted(show_leaf(l) for l in bad)))),
               'the answer to the %s query depends on %s' % (which, ', '.join(sorted(show_leaf(l) for l in bad))), site=r.sp)
    chk.ob('C15.layout', 'message type list lengths 0..30 all analysed', counts == set(range(31)),
           chk.key(ENT, 'C15.layout', ENT, 'types:lengths-covered:%d' % len(counts)),
           'only %d of the 31 list lengths 0..30 have a responding path' % len(counts))
    # R-frame on uuid
    cell_calls, mut_fns, raw, setter_calls = frame_scan(prog)
    for k in mut_fns:
        chk.ob('C15.frame', '&mut context in %s' % k, k.endswith('::set_uuid'), chk.key('crate', 'C15.frame', k, 'mut-context'),
               '%s takes the context mutably (only set_uuid may change the UUID)' % k)
    for k, what, at in raw:
        chk.ob('C15.frame', 'raw pointer in %s' % k, False, chk.key('crate', 'C15.frame', k, 'raw:%s' % what),
               '%s in %s: the who-may-write argument does not cover raw pointers' % (what, k), site=at)
    if 'ctx.set_uuid' in an.entries:
        leaves, sna = an.leaves('ctx.set_uuid')
        rets = [lf for lf in leaves if lf.kind == 'return']
        ok = len(rets) == 1
        if ok:
            selfv = rets[0].heap.get('self')
            try:
                arr = role_value(an, prog, selfv, 'uuid')
                pn = param_names(prog, an.entries['ctx.set_uuid']['key'])[1]
                ok = arr == ('array', tuple(in_term(pn, j) for j in range(16)))
            except Exception:
                ok = False
        chk.ob('C15.frame', 'set_uuid', ok, chk.key('ctx.set_uuid', 'C15.frame', an.entries['ctx.set_uuid']['key'], 'set_uuid-not-whole-copy'),
               'set_uuid does not install exactly the 16 bytes it is given')
    else:
        chk.ob('C15.frame', 'set_uuid', False, chk.key('ctx.set_uuid', 'C15.frame', 'set_uuid', 'missing'), 'set_uuid not found')
    if 'ctx.new' in an.entries:
        leaves, _ = an.leaves('ctx.new')
        ok = len(leaves) == 1 and leaves[0].kind == 'return'
        if ok:
            try:
                ok = role_value(an, prog, leaves[0].value, 'uuid') == ('array', (K(8, 0),) * 16)
            except Exception:
                ok = False
        chk.ob('C15.frame', 'new', ok, chk.key('ctx.new', 'C15.frame', an.entries['ctx.new']['key'], 'initial-uuid'),
               'a new context does not start with an all-zero UUID')
    # nobody else writes the context's plain fields
    n_entries = 0
    for name in sorted(an.entries):
        if name == 'ctx.set_uuid' or name.split('.')[0] in ('from', 'view'):   # a header view's `self` is not a context
            continue
        leaves, ena = an.leaves(name)
        n_entries += 1
        for i, lf in enumerate(leaves):
            w = [e for e in lf.effects if e[0] == 'heapwrite' and e[1] == 'self']
            if w:
                fn, sp = local_site(prog, lf)
                chk.ob('C15.frame', '%s leaf %d' % (name, i), False, chk.key(name, 'C15.frame', fn, 'context-field-written'),
                       '%s writes a field of the context' % name, site=sp)
    chk.floor('entry points scanned for context writes', n_entries, 30)


def dep_allowed(l):
    if l[0] == 'in':
        n = l[1]
        if n[:2] in (('self', 'msg_types'), ('self', 'uuid')):
            return True
        if n == ('packet', 6) or n == ('self', 'response', 'address'):
            return True
        return False
    if l[0] == 'pec':
        return True
    if l[0] == 'len':
        return l[1] == ('self', 'msg_types')
    return False
