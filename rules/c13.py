"""C13 - see proc_rules.c13"""
import proc_rules


def run(chk):
    proc_rules.c13(chk)
