"""C16 - see enc_rules.c16"""
import enc_rules


def run(chk):
    enc_rules.c16(chk)
