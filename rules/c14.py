"""C14 - see proc_rules.c14"""
import proc_rules


def run(chk):
    proc_rules.c14(chk)
