"""C19 - wire code points map to the right enumeration values."""
from common import *
import enums


def run(chk):
    an, prog = chk.an, chk.an.prog
    chk.explanation = (
        'Each From<u8> conversion is interpreted on a symbolic byte; its leaves partition the 256 values. '
        'For every value the leaf that contains it must return the variant the reference table (spec/enums.py, '
        'from DSP0236 Table 12/13 and DSP0239) assigns, and every declared discriminant must equal the table. '
        'All 3 x 256 byte values and all variants are covered; nothing is sampled.')
    chk.rules_text = 'R-class over the 256 values of the argument x the leaves of the conversion; table agreement on declared discriminants'
    tables = [('from.CommandCode', 'control_packet::CommandCode', enums.COMMAND_CODES, enums.COMMAND_UNKNOWN, True),
              ('from.MessageType', 'base_packet::MessageType', enums.MESSAGE_TYPES, enums.MESSAGE_INVALID, True),
              ('from.CompletionCode', 'control_packet::CompletionCode', enums.COMPLETION_CODES, None, False)]
    n_tables = 0
    for ent, adt_id, table, other, total in tables:
        if ent not in an.entries:
            chk.ob('entry-present', ent, False, chk.key(ent, 'entry-present', ent, 'missing'),
                   'conversion %s not found in the crate' % ent)
            continue
        n_tables += 1
        adt = prog.adts.get(adt_id)
        # declared discriminants
        declared = dict((v['name'], int(v['discr'])) for v in adt['variants'])
        expect = dict(table)
        if other:
            expect[other[0]] = other[1]
        for name, val in sorted(expect.items()):
            ok = declared.get(name) == val
            chk.ob('discriminant', '%s::%s' % (adt_id, name), ok,
                   chk.key(ent, 'discriminant', adt_id, 'table:%s:expected=%s:actual=%s' % (name, val, declared.get(name))),
                   'declared discriminant of %s::%s is %s, DSP0236 assigns 0x%02X' % (adt_id, name, declared.get(name), val))
        for name in declared:
            if name not in expect:
                chk.ob('discriminant', '%s::%s' % (adt_id, name), False,
                       chk.key(ent, 'discriminant', adt_id, 'extra-variant:%s' % name),
                       'variant %s::%s has no entry in the reference table' % (adt_id, name))
        leaves, na = an.leaves(ent)
        inst = prog.instances[an.entries[ent]['key']]
        argleaf = in_leaf('num')
        by_val = {}
        for lf in leaves:
            al = lf.know.leaf_allowed(argleaf)
            for v in al:
                by_val.setdefault(v, []).append(lf)
        byval_code = dict((v, k) for k, v in table.items())
        for v in range(256):
            chk.evals()
            lfs = by_val.get(v, [])
            want = byval_code.get(v, other[0] if other else None)
            if want is None:
                continue  # CompletionCode above 5: not constrained by this property (C10 judges the panic)
            ok = len(lfs) == 1 and lfs[0].kind == 'return' and lfs[0].value[0] == 'adt' and \
                variant_name(prog, lfs[0].value) == want
            got = '/'.join(variant_name(prog, l.value) if l.kind == 'return' else l.kind for l in lfs) or 'no leaf'
            fn, sp = local_site(prog, lfs[0]) if lfs else (ent, '?')
            chk.ob('maps-to', '%s(0x%02X)' % (ent, v), ok,
                   chk.key(ent, 'maps-to', fn, 'byte=%02X:expected=%s:actual=%s' % (v, want, got)),
                   '0x%02X converts to %s, expected %s' % (v, got, want), site=sp,
                   show='%s(0x%02X) = %s' % (ent, v, got) if v in (0x00, 0x0F, 0x14, 0x15, 0x7E, 0xFF) else None,
                   detail={'leaves': [dump_leaf(l, prog) for l in lfs]}, nontrivial=(v in byval_code or v in (0x15, 0xFE, 0xFF, 0x80)))
    chk.floor('conversion tables analysed', n_tables, 3)
    chk.floor('byte values classified', chk.evaluations, 256 * 2 + 6)
    chk.assumptions = ['CompletionCode bytes above 5 are outside this property (the conversion diverges there; judged by C10)']
