"""Thorough-tier structural read-out of the PEC routine (C02.d / C03.c)."""
import os
import re
from common import *

PIN = {'name': 'smbus-pec', 'version': '1.0.1',
       'checksum': 'ca0763a680cd5d72b28f7bfc8a054c117d8841380a6ad4f72f05bd2a34217d3e'}


def check_pin(chk):
    from extract import REPO
    repo = os.environ.get('LIBMCTP_REPO', REPO)
    lock = open(os.path.join(repo, 'Cargo.lock')).read()
    m = re.search(r'\[\[package\]\]\nname = "smbus-pec"\nversion = "([^"]+)"\nsource = "[^"]+"\nchecksum = "([0-9a-f]+)"', lock)
    ok = bool(m) and m.group(1) == PIN['version'] and m.group(2) == PIN['checksum']
    chk.ob('pec-pin', 'Cargo.lock smbus-pec', ok,
           chk.key('crate', 'pec-pin', 'Cargo.lock', 'pin:%s' % (m.groups() if m else None,)),
           'the PEC routine is not the pinned smbus-pec %s (found %s); its parameters cannot be certified' % (PIN['version'], m.groups() if m else 'none'))
    toml = open(os.path.join(repo, 'Cargo.toml')).read()
    ok2 = 'lookup-table' not in toml
    chk.ob('pec-pin', 'Cargo.toml features', ok2, chk.key('crate', 'pec-pin', 'Cargo.toml', 'lookup-table-feature'),
           'smbus-pec is built with the lookup-table feature; the structural read-out applies to the bitwise routine')


def check(chk):
    """C03.c: structural parameters of smbus_pec::pec from its MIR (-Zalways-encode-mir)."""
    check_pin(chk)
    from extract import extract
    from interp import Program
    path, th = extract('dev', always_encode_mir=True)
    prog = Program(path)
    keys = [k for k in prog.instances if prog.instances[k]['path'] == 'smbus_pec::pec' or k.endswith('smbus_pec::pec')]
    if not keys:
        chk.ob('C03.c', 'smbus_pec::pec body', False, chk.key('crate', 'C03.c', 'smbus_pec::pec', 'no-mir'),
               'the MIR of smbus_pec::pec is not available; its parameters cannot be read')
        return
    inst = prog.instances[keys[0]]
    consts = []
    ops = []
    for b in inst['body']['blocks']:
        for s in b['stmts']:
            if s['k'] != 'assign':
                continue
            rv = s['rv']
            if rv['k'] == 'binop':
                ops.append(rv['op'])
                for side in ('a', 'b'):
                    o = rv[side]
                    if o['k'] == 'const' and o['c']['k'] == 'int':
                        consts.append((rv['op'], int(o['c']['v'])))
            if rv['k'] == 'use' and rv['op']['k'] == 'const' and rv['op']['c']['k'] == 'int':
                consts.append(('init', int(rv['op']['c']['v'])))
    ranges = []
    calls = []
    for b in inst['body']['blocks']:
        for s in b['stmts']:
            if s['k'] == 'assign' and s['rv']['k'] == 'aggregate' and s['rv']['ak'].get('path') == 'core::ops::Range':
                ranges.append(tuple(int(o['c']['v']) for o in s['rv']['ops'] if o['k'] == 'const' and o['c']['k'] == 'int'))
        if b['term']['k'] == 'call':
            calls.append(b['term']['callee']['path'])
    facts = {
        'accumulator initialised with 0': ('init', 0) in consts,
        'one XOR-in of the data byte per byte': sum(1 for c in calls if 'BitXorAssign' in c) == 1,
        'XOR with polynomial 0x07': ('BitXor', 7) in consts,
        'test mask 1 << 7': ('Shl', 7) in consts and 'BitAnd' in ops,
        'shift left by 1': ('Shl', 1) in consts,
        'no other XOR constant': all(c == 7 for (op, c) in consts if op == 'BitXor'),
        'eight inner steps (0..8)': ranges == [(0, 8)],
        'no shift right / no final XOR': not any(o in ('Shr', 'Not') for o in ops) and sum(1 for o in ops if o == 'BitXor') == 1,
    }
    for name, ok in facts.items():
        chk.ob('C03.c', 'pec: ' + name, ok, chk.key('crate', 'C03.c', 'smbus_pec::pec', 'shape:' + name),
               'structural parameter of the PEC routine not recognised: %s' % name)
    chk.extra['pec_routine'] = {'instance': keys[0], 'constants': sorted(set(map(str, consts)))}
