"""Thorough-tier structural read-out of the PEC routine (C02.d / C03.c)."""
import os
import re
from common import *

PIN = {'name': 'smbus-pec', 'version': '1.0.1',
       'checksum': 'ca0763a680cd5d72b28f7bfc8a054c117d8841380a6ad4f72f05bd2a34217d3e'}


def check_pin(chk):
    from extract import REPO
    repo = os.environ.get('LIBMCTP_REPO', REPO)
    lock = open(os.path.join(repo, 'Cargo.lock')).read()
    m = re.search(r'\[\[package\]\]\nname = "smbus-pec"\nversion = "([^"]+)"\nsource = "[^"]+"\nchecksum = "([0-9a-f]+)"', lock)
    ok = bool(m) and m.group(1) == PIN['version'] and m.group(2) == PIN['checksum']
    chk.ob('pec-pin', 'Cargo.lock smbus-pec', ok,
           chk.key('crate', 'pec-pin', 'Cargo.lock', 'pin:%s' % (m.groups() if m else None,)),
           'the PEC routine is not the pinned smbus-pec %s (found %s); its parameters cannot be certified' % (PIN['version'], m.groups() if m else 'none'))
    toml = open(os.path.join(repo, 'Cargo.toml')).read()
    ok2 = 'lookup-table' not in toml
    chk.ob('pec-pin', 'Cargo.toml features', ok2, chk.key('crate', 'pec-pin', 'Cargo.toml', 'lookup-table-feature'),
           'smbus-pec is built with the lookup-table feature; the structural read-out applies to the bitwise routine')


def check(chk, shape='C03.c', table='C03.e', burst=None):
    """C03.c: structural parameters of smbus_pec::pec from its MIR (-Zalways-encode-mir)."""
    check_pin(chk)
    from extract import extract
    from interp import Program
    path, th = extract('dev', always_encode_mir=True)
    prog = Program(path)
    keys = [k for k in prog.instances if prog.instances[k]['path'] == 'smbus_pec::pec' or k.endswith('smbus_pec::pec')]
    if not keys:
        chk.ob(shape, 'smbus_pec::pec body', False, chk.key('crate', shape, 'smbus_pec::pec', 'no-mir'),
               'the MIR of smbus_pec::pec is not available; its parameters cannot be read')
        return
    inst = prog.instances[keys[0]]
    consts = []
    ops = []
    for b in inst['body']['blocks']:
        for s in b['stmts']:
            if s['k'] != 'assign':
                continue
            rv = s['rv']
            if rv['k'] == 'binop':
                ops.append(rv['op'])
                for side in ('a', 'b'):
                    o = rv[side]
                    if o['k'] == 'const' and o['c']['k'] == 'int':
                        consts.append((rv['op'], int(o['c']['v'])))
            if rv['k'] == 'use' and rv['op']['k'] == 'const' and rv['op']['c']['k'] == 'int':
                consts.append(('init', int(rv['op']['c']['v'])))
    ranges = []
    calls = []
    for b in inst['body']['blocks']:
        for s in b['stmts']:
            if s['k'] == 'assign' and s['rv']['k'] == 'aggregate' and s['rv']['ak'].get('path') == 'core::ops::Range':
                ranges.append(tuple(int(o['c']['v']) for o in s['rv']['ops'] if o['k'] == 'const' and o['c']['k'] == 'int'))
        if b['term']['k'] == 'call':
            calls.append(b['term']['callee']['path'])
    facts = {
        'accumulator initialised with 0': ('init', 0) in consts,
        'one XOR-in of the data byte per byte': sum(1 for c in calls if 'BitXorAssign' in c) == 1,
        'XOR with polynomial 0x07': ('BitXor', 7) in consts,
        'test mask 1 << 7': ('Shl', 7) in consts and 'BitAnd' in ops,
        'shift left by 1': ('Shl', 1) in consts,
        'no other XOR constant': all(c == 7 for (op, c) in consts if op == 'BitXor'),
        'eight inner steps (0..8)': ranges == [(0, 8)],
        'no shift right / no final XOR': not any(o in ('Shr', 'Not') for o in ops) and sum(1 for o in ops if o == 'BitXor') == 1,
    }
    for name, ok in facts.items():
        chk.ob(shape, 'pec: ' + name, ok, chk.key('crate', shape, 'smbus_pec::pec', 'shape:' + name),
               'structural parameter of the PEC routine not recognised: %s' % name)
    chk.extra['pec_routine'] = {'instance': keys[0], 'constants': sorted(set(map(str, consts)))}
    tab = crc_table(chk, prog, keys[0], table)
    if burst:
        burst_clause(chk, tab, burst)


def ref_crc8(x):
    """CRC-8, polynomial x^8 + x^2 + x + 1 (0x07), initial value 0, no reflection, no final XOR - one byte."""
    crc = x
    for _ in range(8):
        crc = ((crc << 1) ^ 0x07) & 0xFF if crc & 0x80 else (crc << 1) & 0xFF
    return crc


def crc_table(chk, prog, key, rule='C03.e'):
    """C03.e: the per-byte transition of the PEC routine equals the CRC-8/0x07 step for all 256 values.

    smbus_pec::pec is abstractly interpreted on a slice of exactly one symbolic byte x (accumulator 0, so the value fed to
    the eight inner steps is x itself). The interpreter forks on each tested bit, so the leaves partition the 256 values of
    x; on each leaf the returned bit-vector, evaluated at the leaf's value, must equal the reference CRC-8 of x. With the
    structural facts of C03.c (accumulator starts at 0; per byte exactly one XOR-in followed by eight steps that read only
    the accumulator; the accumulator is returned unchanged) this gives pec(data) = CRC-8/0x07(data) for every length by
    induction on the bytes."""
    from interp import Interp
    from entries import len_term, len_leaf
    it = Interp(prog)

    def make(interp, st, inst):
        ty = inst['sig']['inputs'][0]
        v = interp.build_sym(st, ty, ('data',))
        st.know.assume(mk_cmp('Eq', len_term('data'), K(USIZE, 1))[1])
        return [v]
    try:
        leaves, na = it.run(key, make)
    except Exception as e:
        chk.ob(rule, 'pec([x]) for all x', False, chk.key('crate', rule, 'smbus_pec::pec', 'cannot-interpret'),
               'the PEC routine cannot be interpreted: %r' % (e,))
        return None
    x = in_leaf('data', 0)
    seen = {}
    bad = []
    for lf in leaves:
        if lf.kind != 'return':
            bad.append('a path of the PEC routine %s: %s' % (lf.kind, lf.panic[1]))
            continue
        al = lf.know.leaf_allowed(x)
        for v in al:
            try:
                got = eval_term(lf.value, {x: v}) & 0xFF
            except CannotEval:
                got = None
            seen.setdefault(v, []).append(got)
    for v in range(256):
        chk.evals()
        got = seen.get(v, [])
        if got != [ref_crc8(v)]:
            bad.append('pec([0x%02X]) = %s, CRC-8/0x07 gives 0x%02X' % (v, got, ref_crc8(v)))
    chk.ob(rule, 'pec([x]) == CRC-8/0x07(x) for all 256 x', not bad,
           chk.key('crate', rule, 'smbus_pec::pec', 'table:' + (bad[0] if bad else '')),
           'the PEC routine is not CRC-8 with polynomial 0x07, initial value 0: %s' % '; '.join(bad[:3]),
           show='%d leaves partition the 256 values of the byte; on each the returned bit-vector equals the reference CRC-8 step' % len(leaves))
    chk.extra['pec_single_byte_leaves'] = len(leaves)
    if any(len(seen.get(v, [])) != 1 or seen[v][0] is None for v in range(256)):
        return None
    return [seen[v][0] for v in range(256)]


def burst_clause(chk, T, rule):
    """C02.e: no corruption confined to eight consecutive bits turns a valid packet into an accepted one.

    Premises decided elsewhere: (i) acceptance implies last byte == pec(all bytes before it) (C02.a/b), i.e. the accumulator
    after folding the whole packet, PEC byte included, is 0 (because step(acc, b) = T[acc ^ b] and T[0] = 0); (ii) pec is
    the left fold of that step from 0 (shape facts); (iii) T is the table derived from the routine's MIR above.
    Decided here, by finite enumeration over the *derived* table: T is GF(2)-linear and injective, so the difference of the
    accumulators of two equally long inputs evolves as d' = T[d ^ e] (e = XOR of the two inputs' bytes at that position),
    independent of the data; a burst of at most eight bits touches one byte (e != 0: d' = T[e] != 0) or two adjacent bytes
    with error bytes (e1, e2) = (b >> k, (b << (8-k)) & 0xFF): the difference after both is T[T[e1] ^ e2], non-zero iff
    T[e1] != e2; afterwards e = 0 and d' = T[d] stays non-zero. A non-zero final difference means the corrupted packet's
    accumulator is not 0, so it is not accepted."""
    if T is None:
        chk.ob(rule, 'burst clause', False, chk.key('crate', rule, 'smbus_pec::pec', 'no-table'),
               'the per-byte table of the PEC routine could not be derived, so the burst-error clause cannot be decided')
        return
    n = 0
    lin = [(a, b) for a in range(256) for b in range(a, 256) if T[a ^ b] != T[a] ^ T[b]]
    n += 256 * 257 // 2
    chk.ob(rule, 'step table is GF(2)-linear', not lin and T[0] == 0, chk.key('crate', rule, 'smbus_pec::pec', 'linear'),
           'the per-byte step of the PEC routine is not linear: T[%s]' % (lin[:1],))
    inj = len(set(T)) == 256
    chk.ob(rule, 'step table is injective', inj, chk.key('crate', rule, 'smbus_pec::pec', 'injective'),
           'two accumulator values collapse in one step (the generator has a zero constant term): an error can be absorbed')
    bad = []
    for b in range(1, 256):
        for k in range(0, 8):
            e1, e2 = b >> k, (b << (8 - k)) & 0xFF
            n += 1
            if e1 == 0 and e2 == 0:
                bad.append((b, k))
            elif e1 and T[e1] == e2:
                bad.append((b, k))
    chk.evals(n)
    chk.ob(rule, 'every burst of <= 8 bits (255 patterns x 8 alignments) leaves a non-zero accumulator difference', not bad,
           chk.key('crate', rule, 'smbus_pec::pec', 'burst:%s' % (bad[:1],)),
           'a corruption confined to eight consecutive bits is absorbed by the PEC: pattern/alignment %s' % (bad[:3],),
           show='linear: 32896 pairs; injective: 256 values; bursts: 2040 (pattern, alignment) cases; all on the table derived from the MIR of smbus_pec::pec')
