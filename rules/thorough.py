"""Thorough tier: on top of the quick rules, re-validate the checker itself for this property.

* engine health: the idiom fixture (ordinary Rust idioms) must be interpreted without unanalysable leaves;
* mutation self-test: every own edit and every seeded change that names this property is applied to a scratch
  copy of /repo's CURRENT tree (outside /repo and /verif, removed afterwards); a breaking change must make
  this check report a violation, a neutral edit must leave the set of finding keys unchanged.
The results are recorded in the evidence (and printed); they are about the checker, not about the property,
so they never turn into a VIOLATION line.
"""
import json
import os
import shutil
import subprocess
import sys
import tempfile

from common import VERIF


def finding_keys(outdir, pid):
    d = os.path.join(outdir, pid)
    keys = set()
    if os.path.isdir(d):
        for f in os.listdir(d):
            try:
                keys.add(json.load(open(os.path.join(d, f)))['key'])
            except Exception:
                pass
    return keys


def run_on(root, pid, tmp, tag):
    out = os.path.join(tmp, 'out-' + tag)
    env = dict(os.environ, LIBMCTP_REPO=root, MCTPSA_OUT=out, VERIF_TIER='quick')
    r = subprocess.run([os.path.join(VERIF, 'check'), pid, '--tier', 'quick'], env=env,
                       stdout=subprocess.PIPE, stderr=subprocess.STDOUT, text=True)
    return r.returncode, r.stdout, finding_keys(out, pid)


def fixture_health(chk):
    sys.path.insert(0, os.path.join(VERIF, 'engine'))
    from extract import extract
    from interp import Interp, Program
    from entries import default_args
    path, th = extract('dev', repo=os.path.join(VERIF, 'fixtures', 'idioms'), crate='idioms')
    prog = Program(path)
    expected_unsupported = set()
    bad, n = [], 0
    for key in sorted(prog.instances):
        inst = prog.instances[key]
        if not inst['local'] or inst['crate'] != 'idioms' or inst.get('closure') or inst['vis'] != 'pub':
            continue
        n += 1
        it = Interp(prog)
        try:
            leaves, na = it.run(key, default_args())
            un = [l for l in leaves if l.kind == 'unanalysable']
        except Exception as e:
            un = [e]
        if un and key not in expected_unsupported:
            bad.append(key)
    return n, bad


WITNESSES = {
    'C13': ['ResponseEidIsPrivate', 'RequestEidIsPrivate', 'HalvesArePrivate'],
    'C15': ['UuidIsPrivate', 'SetUuidNeedsMut'],
    'C14': ['SelectorIsPrivate'],
}


def witnesses(chk, repo):
    """Compile-fail witnesses (rustdoc compile_fail with error codes, nightly) against the tree under analysis."""
    names = WITNESSES.get(chk.pid)
    if not names:
        return
    import re
    tmp = tempfile.mkdtemp(prefix='mctpsa-witness-')
    try:
        shutil.copytree(os.path.join(VERIF, 'witness', 'src'), os.path.join(tmp, 'src'))
        toml = open(os.path.join(VERIF, 'witness', 'Cargo.toml.in')).read().replace('@REPO@', os.path.abspath(repo))
        open(os.path.join(tmp, 'Cargo.toml'), 'w').write(toml)
        if os.path.exists(os.path.join(repo, 'Cargo.lock')):
            shutil.copy(os.path.join(repo, 'Cargo.lock'), os.path.join(tmp, 'Cargo.lock'))
        env = dict(os.environ, CARGO_NET_OFFLINE='true', CARGO_TARGET_DIR=os.path.join(tmp, 'target'))
        r = subprocess.run(['cargo', '+nightly', 'test', '--doc', '--offline'], cwd=tmp, env=env,
                           stdout=subprocess.PIPE, stderr=subprocess.STDOUT, text=True)
        out = r.stdout
        res = {}
        for m in re.finditer(r'^test src/lib.rs - (\w+) \(line \d+\) - (compile fail|compile) \.\.\. (\w+)', out, re.M):
            res[(m.group(1), m.group(2))] = m.group(3)
        for n in names:
            fail_ok = res.get((n, 'compile fail')) == 'ok'
            twin_ok = res.get((n, 'compile')) == 'ok'
            chk.evals(2)
            chk.ob(chk.pid + '.witness', 'witness %s' % n, fail_ok and twin_ok,
                   chk.key('witness', chk.pid + '.witness', n, 'witness:%s:compile_fail=%s:twin=%s' % (n, res.get((n, 'compile fail')), res.get((n, 'compile')))),
                   'compile-fail witness %s: the forbidden access %s, its twin %s - outside code can reach the state other than through the accessors (or the public API changed)' % (
                       n, 'is rejected' if fail_ok else 'COMPILES', 'compiles' if twin_ok else 'does not compile'),
                   show='witness %s: forbidden access rejected by rustc with the expected error code, twin differing only in that line compiles' % n)
        chk.extra['witness_output_tail'] = out.strip().splitlines()[-3:]
    finally:
        shutil.rmtree(tmp, ignore_errors=True)


def run(chk):
    from extract import REPO
    repo = os.environ.get('LIBMCTP_REPO', REPO)
    pid = chk.pid
    results = {'fixture_functions': 0, 'fixture_unanalysable': [], 'edits': []}
    try:
        witnesses(chk, repo)
    except Exception as e:
        print('note (thorough): witnesses could not be run: %r' % (e,))
    try:
        n, bad = fixture_health(chk)
        results['fixture_functions'] = n
        results['fixture_unanalysable'] = bad
        if bad:
            print('note (thorough): idiom fixture functions not analysable: %s' % ', '.join(bad))
    except Exception as e:
        results['fixture_error'] = repr(e)
    sys.path.insert(0, os.path.join(VERIF, 'selftest'))
    from edits import EDITS
    cases = []
    for e in EDITS:
        if pid in e['checks']:
            cases.append(('selftest:' + e['name'], e['kind'], ('edits', e['edits'])))
    sd = os.path.join(VERIF, 'seeded')
    if os.path.isdir(sd):
        for name in sorted(os.listdir(sd)):
            mp = os.path.join(sd, name, 'meta.json')
            if os.path.exists(mp):
                meta = json.load(open(mp))
                if meta.get('breaks_property') == pid:
                    cases.append(('seeded:' + name, 'break', ('patch', os.path.join(sd, name, 'patch.diff'))))
                elif meta.get('kind') == 'neutral':
                    cases.append(('seeded:' + name, 'neutral', ('patch', os.path.join(sd, name, 'patch.diff'))))
    tmp = tempfile.mkdtemp(prefix='mctpsa-thorough-')
    try:
        base_root = os.path.join(tmp, 'base')
        shutil.copytree(repo, base_root, ignore=shutil.ignore_patterns('target', '.git'))
        rc0, out0, base_keys = run_on(base_root, pid, tmp, 'base')
        def one(case):
            idx, (name, kind, (how, what)) = case
            root = os.path.join(tmp, 'm%d' % idx)
            shutil.copytree(base_root, root)
            status = None
            try:
                if how == 'edits':
                    for ed in what:
                        p = os.path.join(root, ed['file'])
                        t = open(p).read()
                        if t.count(ed['old']) < 1:
                            status = 'skipped (anchor not in this tree)'
                            break
                        open(p, 'w').write(t.replace(ed['old'], ed['new'], 1))
                else:
                    r = subprocess.run('git init -q . && git apply %s' % what, cwd=root, shell=True,
                                       stdout=subprocess.PIPE, stderr=subprocess.STDOUT)
                    if r.returncode != 0:
                        status = 'skipped (patch does not apply to this tree)'
                if status is None:
                    rc, out, keys = run_on(root, pid, tmp, 'm%d' % idx)
                    if 'does not compile' in out:
                        status = 'skipped (does not compile on this tree)'
                    elif kind == 'break':
                        status = 'detected' if (keys - base_keys) else 'NOT DETECTED'
                    else:
                        status = 'silent' if keys == base_keys and 'CHECKER-ERROR' not in out else 'FALSE ALARM'
            finally:
                shutil.rmtree(root, ignore_errors=True)
                shutil.rmtree(os.path.join(tmp, 'out-m%d' % idx), ignore_errors=True)
            return {'case': name, 'kind': kind, 'result': status}
        from concurrent.futures import ThreadPoolExecutor
        with ThreadPoolExecutor(5) as ex:
            for res in ex.map(one, list(enumerate(cases))):
                results['edits'].append(res)
                chk.evals()
                if res['result'] in ('NOT DETECTED', 'FALSE ALARM'):
                    print('note (thorough): checker self-test %s: %s' % (res['case'], res['result']))
    finally:
        shutil.rmtree(tmp, ignore_errors=True)
    det = sum(1 for e in results['edits'] if e['result'] == 'detected')
    sil = sum(1 for e in results['edits'] if e['result'] == 'silent')
    results['summary'] = '%d breaking changes detected, %d neutral edits silent, %d skipped, %d not as expected' % (
        det, sil, sum(1 for e in results['edits'] if e['result'].startswith('skipped')),
        sum(1 for e in results['edits'] if e['result'] in ('NOT DETECTED', 'FALSE ALARM')))
    chk.extra['thorough_selftest'] = results
    print('thorough: %s' % results['summary'])
