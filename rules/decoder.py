"""Helpers shared by the rules over decode_packet / process_packet leaves."""
from common import *
from entries import len_term, len_leaf
import itertools
import decode_ref
import enums


def pec_atom():
    """Canonical atom: packet[len-1] == PEC(packet[0 .. len-1))."""
    L = len_term('packet')
    c0, ts = lin_of(L)
    last = mk_lin(USIZE, c0 - 1, ts)
    byte = mk_lin(8, 0, {('in', ('packet', last), 8, None): 1})
    pl = ('pec', ('in', ('packet',), K(USIZE, 0), last))
    pec = mk_bv(8, tuple((pl, i) for i in range(8)))
    t = mk_cmp('Eq', byte, pec)
    return t[1]


def pec_state(lf, atom=None):
    """True: the leaf's guard contains the whole-prefix PEC comparison positively; False: negatively; None: absent."""
    atom = atom or pec_atom()
    if atom in lf.know.factset:
        return True
    if ('not', atom) in lf.know.factset:
        return False
    return None


def other_pec_atoms(lf, atom=None):
    """Guard atoms that mention a PEC term or the last byte but are not the canonical comparison."""
    atom = atom or pec_atom()
    out = []
    for a in lf.facts:
        pos = a[1] if a[0] == 'not' else a
        if pos == atom:
            continue
        if any(l[0] == 'pec' for l in atom_leaves(pos)):
            out.append(a)
    return out


BYTES = (4, 8, 9, 10, 11)


def byte_leaf(i):
    return in_leaf('packet', i)


def min_len(lf):
    lo, hi = lf.know.leaf_range(len_leaf('packet'))
    return lo, hi


def classify(lf):
    """Classes of header bytes consistent with the leaf's guard.
    -> dict with sets: hdr_ok {T,F}, b8 set of (ic, mtype) classes, rq {0,1}, cmd set, cc set; or raises CheckerError."""
    k = lf.know
    out = {}
    a4 = k.leaf_allowed(byte_leaf(4))
    out['hdr_ok'] = set(v == 0x01 for v in a4)
    a8 = k.leaf_allowed(byte_leaf(8))
    cls8 = set()
    for v in a8:
        ic = v >> 7
        mt = v & 0x7F
        if ic:
            cls8.add((1, -1))
        elif mt in decode_ref.SUPPORTED:
            cls8.add((0, mt))
        else:
            cls8.add((0, -1))
    out['b8'] = cls8
    out['rq'] = set(v >> 7 for v in k.leaf_allowed(byte_leaf(9)))
    out['cmd'] = set(k.leaf_allowed(byte_leaf(10)))
    a11 = k.leaf_allowed(byte_leaf(11))
    out['cc'] = set(a11)
    return out


def independent_guard(lf, na=0):
    """Every guard atom must mention at most one packet byte (so that class sets multiply),
    except the PEC comparison and atoms over the length only. Returns list of offending atoms."""
    bad = []
    pa = pec_atom()
    for a in lf.facts[na:]:
        pos = a
        while pos[0] == 'not':
            pos = pos[1]
        if pos == pa:
            continue
        ls = atom_leaves(pos)
        pk = [l for l in ls if l[0] == 'in' and l[1] and l[1][0] == 'packet']
        others = [l for l in ls if not (l[0] == 'in' and l[1] and l[1][0] == 'packet') and l != len_leaf('packet')]
        if len(pk) > 1 or (pk and len_leaf('packet') in ls) or others and pk:
            bad.append(a)
    return bad


def data_len_eq(lf, rq, t):
    """Does the leaf's guard decide `data length == t` (data = bytes between control header(+cc) and PEC)?"""
    L = len_term('packet')
    c0, ts = lin_of(L)
    d = mk_lin(USIZE, c0 - (12 if rq else 13), ts)
    at = mk_cmp('Eq', K(USIZE, t), d)
    if is_const(at):
        return bool(at[2])
    return lf.know.decide(at[1])
