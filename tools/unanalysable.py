#!/usr/bin/env python3
"""Developer aid: list the reasons of unanalysable leaves over all catalogue entries of the tree in $LIBMCTP_REPO."""
import os, sys, collections
V = os.path.dirname(os.path.dirname(os.path.abspath(__file__)))
sys.path.insert(0, os.path.join(V, 'engine'))
from catalog import Analysis
an = Analysis('dev')
c = collections.Counter()
for name in sorted(an.entries):
    try:
        leaves, na = an.leaves(name)
    except Exception as e:
        c[('EXC ' + repr(e)[:150], name)] += 1
        continue
    for lf in leaves:
        if lf.kind == 'unanalysable':
            c[(lf.panic[1][:160], name.split('.')[0])] += 1
for (why, ent), n in c.most_common():
    print(n, ent, why)
