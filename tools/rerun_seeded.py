#!/usr/bin/env python3
"""Developer aid: apply every seeded change under /verif/seeded to a scratch copy of /repo (outside /repo and /verif),
run all 19 checks on it, update meta.json and write seeded/RESULTS.md. Scratch copies are removed."""
import json, os, shutil, subprocess, sys, tempfile
from concurrent.futures import ThreadPoolExecutor
V = os.path.dirname(os.path.dirname(os.path.abspath(__file__)))
PIDS = ['C%02d' % i for i in range(1, 20)]


def one(name):
    d = os.path.join(V, 'seeded', name)
    tmp = tempfile.mkdtemp(prefix='mctpsa-seed-')
    try:
        root = os.path.join(tmp, 'repo')
        shutil.copytree('/repo', root, ignore=shutil.ignore_patterns('target', '.git'))
        subprocess.check_call('git init -q . && git apply %s' % os.path.join(d, 'patch.diff'), cwd=root, shell=True)
        env = dict(os.environ, LIBMCTP_REPO=root, MCTPSA_OUT=os.path.join(tmp, 'out'))
        fired, errors, first = [], [], {}
        for p in PIDS:
            r = subprocess.run([os.path.join(V, 'check'), p], env=env, stdout=subprocess.PIPE, stderr=subprocess.STDOUT, text=True)
            if 'VIOLATION property=%s' % p in r.stdout:
                fired.append(p)
                lines = [l.strip() for l in r.stdout.splitlines() if l.startswith('  rule ')]
                first[p] = lines[0][:400] if lines else ''
            elif r.returncode != 0:
                errors.append(p)
        meta = json.load(open(os.path.join(d, 'meta.json')))
        meta['checks_that_fire'] = fired
        meta['checker_errors_without_violation'] = errors
        meta['first_report'] = first
        json.dump(meta, open(os.path.join(d, 'meta.json'), 'w'), indent=1)
        return name, meta.get('breaks_property'), fired, errors, first
    finally:
        shutil.rmtree(tmp, ignore_errors=True)


names = sorted(n for n in os.listdir(os.path.join(V, 'seeded')) if os.path.isdir(os.path.join(V, 'seeded', n)))
FROM_META = '--from-meta' in sys.argv
if FROM_META:
    sys.argv.remove('--from-meta')
if len(sys.argv) > 1:
    names = [n for n in names if any(a in n for a in sys.argv[1:])]
if FROM_META:
    # rebuild the report from what the last runs recorded in each meta.json (no check is run)
    res = []
    for n in names:
        m = json.load(open(os.path.join(V, 'seeded', n, 'meta.json')))
        res.append((n, m.get('breaks_property'), m.get('checks_that_fire', m.get('checks_alarming', [])) or [],
                    m.get('checker_errors_without_violation', []) or [], m.get('first_report', {}) or {}))
else:
    with ThreadPoolExecutor(6) as ex:
        res = list(ex.map(one, names))
lines = ['# Seeded changes and the checks that catch them', '',
         'Each directory holds patch.diff, demo.rs (fails with the change, passes without) and meta.json. All were written by',
         'independent sub-agents that saw only the property text; each was confirmed in a scratch copy (existing suite still',
         'green, demo fails with / passes without the change). `target` = the check of the property the change was written against.', '',
         '| change | breaks | caught by its target check | all checks that fire | checks erroring without a verdict |', '|---|---|---|---|---|']
miss = 0
false_alarms = 0
nb = 0
for name, pid, fired, errors, first in res:
    if pid is None:
        continue
    nb += 1
    ok = pid in fired
    miss += 0 if ok else 1
    lines.append('| %s | %s | %s | %s | %s |' % (name, pid, 'yes' if ok else '**NO**', ' '.join(fired), ' '.join(errors)))
lines += ['', '%d breaking changes, %d missed by their target check.' % (nb, miss), '']
lines += ['## Behaviour-preserving refactorings (every check must stay silent)', '',
          'Written by sub-agents asked to restructure one part of the library without changing behaviour for any input; each is',
          'confirmed by the existing suite and by a differential test (hash of outcomes over 10^5-10^6 inputs, captured on the',
          'unmodified tree).', '', '| refactoring | checks reporting (false alarms) | checks erroring |', '|---|---|---|']
for name, pid, fired, errors, first in res:
    if pid is not None:
        continue
    false_alarms += len(fired) + len(errors)
    lines.append('| %s | %s | %s |' % (name, ' '.join(fired) or 'none', ' '.join(errors) or 'none'))
lines += ['', '%d false alarms.' % false_alarms, '']
lines.append('## First report of the target check')
for name, pid, fired, errors, first in res:
    if pid is not None:
        lines.append('* %s: %s' % (name, first.get(pid, '(none)')))
if len(sys.argv) == 1:
    open(os.path.join(V, 'seeded', 'RESULTS.md'), 'w').write('\n'.join(lines) + '\n')
print('\n'.join(l for l in lines if l.startswith('|') or 'missed' in l or 'false alarms' in l))
