#!/usr/bin/env python3
"""Developer aid: regenerate MANIFEST.json from the table below (kept next to the rules it describes)."""
import json, os
V = os.path.dirname(os.path.dirname(os.path.abspath(__file__)))
props = [json.loads(l) for l in open(os.path.join(V, 'properties.jsonl'))]

LEVEL_TEXT = ('sound static derivation over type-checked MIR: the entry points are abstractly interpreted on symbolic '
              'inputs (path-partitioned, no solver, nothing is executed), every path becomes a leaf, and each rule '
              'instance over the leaves is an obligation that is enumerated and discharged; not called a proof because '
              'the analyser itself is unverified')
NOTE = ('trusted base: mirdump (MIR serialiser), the mctpsa interpreter/term algebra, the listed models of core '
        'slice/iterator/Cell functions, the hand-written reference tables in /verif/spec')

CHECKS = {
    'C03': ('abstract interpretation of all encoders; R-layout on the PEC byte; who-may-call on smbus_pec::pec', '4 C03', 'quick: smbus_pec::pec is an uninterpreted function of its view; thorough additionally interprets its MIR on one symbolic byte (256 leaves = the CRC-8/0x07 step table) and reads its loop skeleton'),
    'C04': ('abstract interpretation of all encoders; bit-level R-layout on bytes 0-3; exact byte-count (no surviving truncation); agreement with the length probe leaves', '4 C04', ''),
    'C05': ('abstract interpretation of all encoders; bit-level R-layout on bytes 4-8', '4 C05', ''),
    'C06': ('abstract interpretation of the 17 request encoders; R-layout against DSP0236 reference bodies keyed by API name', '4 C06', ''),
    'C07': ('abstract interpretation of the 6 response encoders; bit-level R-layout against DSP0236 reference bodies', '4 C07', ''),
    'C08': ('abstract interpretation of vendor_defined and the generate_* writers; R-layout; R-class over the 256 format values', '4 C08', ''),
    'C10': ('abstract interpretation of decode_packet / get_length / process_packet; R-panic: every panic or unanalysable leaf is reported with its call path', '4 C10', 'process_packet under the valid-configuration precondition of the property'),
    'C16': ('abstract interpretation of all encoders; written-range chain, R-dep on free symbols, R-panic under len(buf) >= len, R-class on refusal guards', '4 C16', ''),
    'C17': ('abstract interpretation of get_length; R-class over the 256 values of byte 1, R-dep, R-panic', '4 C17', ''),
    'C19': ('abstract interpretation of the three From<u8> conversions; R-class over all 256 bytes; table agreement with DSP0236 code points', '4 C19', ''),
}
import sys
sys.path.insert(0, os.path.join(V, 'tools'))
try:
    from manifest_extra import EXTRA, NOT_APPLICABLE
    CHECKS.update(EXTRA)
except ImportError:
    NOT_APPLICABLE = {}

checks = []
na = []
for p in props:
    pid = p['id']
    if pid in CHECKS:
        tech, ref, extra_note = CHECKS[pid]
        checks.append({
            'property_id': pid,
            'quick_cmd': './check %s --tier quick' % pid,
            'thorough_cmd': './check %s --tier thorough' % pid,
            'evidence_file': 'evidence/%s.json' % pid,
            'replay_cmd_template': './check --explain {path}',
            'engine': 'mctpsa',
            'level_claimed': {'category': 'other', 'text': LEVEL_TEXT, 'design_ref': 'DESIGN.md section ' + ref},
            'level_note': NOTE + ('; ' + extra_note if extra_note else ''),
            'technique': 'static analysis: ' + tech,
        })
    else:
        na.append({'property_id': pid, 'reason': NOT_APPLICABLE.get(pid, 'check not built yet (framework under construction; see DESIGN.md section 6)')})
m = {
    'version': 1,
    'setup_cmd': 'cd mirdump && CARGO_NET_OFFLINE=true cargo +nightly build --release --offline',
    'hooks': {'guard': 'libmctp_verif', 'enable': 'none: the analysis reads MIR of the unmodified crate; no hooks exist',
              'baseline_off_cmd': 'cd /repo && cargo test --workspace --no-fail-fast --offline',
              'source_commits': [], 'add_only': True},
    'engines': [
        {'name': 'mirdump', 'path': 'mirdump', 'serves_properties': sorted(CHECKS), 'kind_free_text': 'rustc_private driver (RUSTC_WORKSPACE_WRAPPER): serialises the monomorphic, type-checked MIR of libmctp with resolved callees as JSON facts'},
        {'name': 'mctpsa', 'path': 'engine', 'serves_properties': sorted(CHECKS), 'kind_free_text': 'abstract interpreter over the MIR facts (trace-partitioned, canonical bit-vector and linear domains, byte-set and interval feasibility, no solver) plus per-property rules in /verif/rules against reference tables in /verif/spec'},
    ],
    'checks': checks,
    'not_applicable': na,
    'notes': 'All checks are static: nothing in a registered command executes libmctp. Findings and repaired defects: KNOWN_FINDINGS.txt. See DESIGN.md.',
}
json.dump(m, open(os.path.join(V, 'MANIFEST.json'), 'w'), indent=1)
print(len(checks), 'checks,', len(na), 'not yet')
