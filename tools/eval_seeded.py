#!/usr/bin/env python3
"""Developer aid: confirm a sub-agent's variant in a scratch copy of /repo (outside /repo and /verif) and run
every check against it.  usage: eval_seeded.py <property> <variant letter> [--save]
Confirms: diff applies; existing suite passes with the change (59 unit + 4 doc); demo fails with the change;
demo passes without it. Then runs all 19 checks on the changed tree and reports which fire."""
import json, os, re, shutil, subprocess, sys, tempfile
V = os.path.dirname(os.path.dirname(os.path.abspath(__file__)))
PIDS = ['C%02d' % i for i in range(1, 20)]


def sh(cmd, cwd, env=None):
    r = subprocess.run(cmd, cwd=cwd, env=env, shell=True, stdout=subprocess.PIPE, stderr=subprocess.STDOUT, text=True)
    return r.returncode, r.stdout


def suite_ok(out):
    return bool(re.search(r'test result: ok\. 59 passed', out)) and bool(re.search(r'test result: ok\. 4 passed', out)) and 'FAILED' not in out


def main():
    pid, var = sys.argv[1], sys.argv[2]
    src = '/tmp/wt-%s/demo' % pid
    tag = var
    if '--round2' in sys.argv:
        src = '/tmp/wh-%s/demo' % pid
        tag = 'h' + var
    diff = os.path.join(src, 'variant_%s.diff' % var)
    demo = os.path.join(src, 'variant_%s.rs' % var)
    if '--round3' in sys.argv:
        src = '/tmp/wr-%s/demo' % pid
        tag = 'r' + var
        diff = os.path.join(src, 'variant_%s.diff' % var)
        demo = os.path.join(src, 'variant_%s.rs' % var)
    base_patch = None
    if '--round4' in sys.argv or '--round5' in sys.argv or '--round6' in sys.argv:
        src = '/tmp/wb-%s/demo' % pid
        tag = ('n' if '--round4' in sys.argv else 'm' if '--round5' in sys.argv else 'p') + var
        diff = os.path.join(src, 'variant_%s.diff' % var)
        demo = os.path.join(src, 'variant_%s.rs' % var)
        base_patch = open('/tmp/wbbase-%s' % pid).read().strip()
    res = {'property': pid, 'variant': var}
    if not (os.path.exists(diff) and os.path.exists(demo)):
        print(json.dumps(dict(res, error='missing files')))
        return 1
    tmp = tempfile.mkdtemp(prefix='mctpsa-eval-')
    try:
        root = os.path.join(tmp, 'repo')
        shutil.copytree('/repo', root, ignore=shutil.ignore_patterns('target', '.git'))
        sh('git init -q . && git add -A && git -c user.email=x@x -c user.name=x commit -qm upstream', root)
        if base_patch:
            rc, out = sh('git apply %s && git add -A && git -c user.email=x@x -c user.name=x commit -qm base' % base_patch, root)
            if rc != 0:
                print(json.dumps(dict(res, error='base patch does not apply', out=out[-300:])))
                return 1
            res['base'] = os.path.basename(os.path.dirname(base_patch))
        env = dict(os.environ, CARGO_NET_OFFLINE='true', CARGO_TARGET_DIR=os.path.join(tmp, 'target'))
        # demo on the clean tree
        os.makedirs(os.path.join(root, 'tests'))
        shutil.copy(demo, os.path.join(root, 'tests', 'demo.rs'))
        rc, out = sh('cargo test --offline --test demo 2>&1 | tail -15', root, env)
        res['demo_clean_passes'] = 'test result: ok' in out and 'FAILED' not in out
        shutil.rmtree(os.path.join(root, 'tests'))
        rc, out = sh('git apply %s' % diff, root)
        res['applies'] = rc == 0
        if rc != 0:
            res['apply_output'] = out[-400:]
            print(json.dumps(res))
            return 1
        rc, out = sh('cargo test --offline 2>&1 | grep -E "^test result|FAILED|warning|error" | head', root, env)
        res['suite_passes_with_change'] = suite_ok(out)
        res['suite_output'] = out.strip().splitlines()[:4]
        os.makedirs(os.path.join(root, 'tests'))
        shutil.copy(demo, os.path.join(root, 'tests', 'demo.rs'))
        rc, out = sh('cargo test --offline --test demo 2>&1 | tail -30', root, env)
        res['demo_fails_with_change'] = 'FAILED' in out or 'panicked' in out
        shutil.rmtree(os.path.join(root, 'tests'))
        shutil.rmtree(os.path.join(tmp, 'target'), ignore_errors=True)
        # the checks
        cenv = dict(os.environ, LIBMCTP_REPO=root, MCTPSA_OUT=os.path.join(tmp, 'out'))
        fired, errors = [], []
        first = {}
        for p in PIDS:
            r = subprocess.run([os.path.join(V, 'check'), p], env=cenv, stdout=subprocess.PIPE, stderr=subprocess.STDOUT, text=True)
            if 'VIOLATION property=%s' % p in r.stdout:
                fired.append(p)
                lines = [l for l in r.stdout.splitlines() if l.startswith('  rule ')]
                first[p] = lines[0][:300] if lines else ''
            if 'CHECKER-ERROR' in r.stdout:
                errors.append(p)
        res['checks_fired'] = fired
        res['checker_errors'] = errors
        res['first_report'] = first
        res['caught_by_target'] = pid in fired
        confirmed = res['demo_clean_passes'] and res['suite_passes_with_change'] and res['demo_fails_with_change']
        res['confirmed'] = confirmed
        if '--save' in sys.argv and confirmed:
            d = os.path.join(V, 'seeded', '%s-%s' % (pid, tag))
            os.makedirs(d, exist_ok=True)
            if base_patch:
                # stored relative to /repo: the behaviour-preserving base refactoring plus the change
                rc, comb = sh('git diff HEAD~1 -- src', root)
                open(os.path.join(d, 'patch.diff'), 'w').write(comb)
                shutil.copy(diff, os.path.join(d, 'change_on_base.diff'))
            else:
                shutil.copy(diff, os.path.join(d, 'patch.diff'))
            shutil.copy(demo, os.path.join(d, 'demo.rs'))
            notes = ''
            np = os.path.join(src, 'NOTES.md')
            if os.path.exists(np):
                notes = open(np).read()
            json.dump({
                'breaks_property': pid,
                'variant': tag,
                'origin': 'independent sub-agent given only the property text and a scratch worktree' + (' (second round: asked for subtle changes - cooperating edits, narrow refactoring slips - avoiding the first round\'s mechanisms)' if tag.startswith('h') else ' (third round: a = a narrow-trigger "needle" change, b = one behaviour change hidden inside a 60+ line refactoring)' if tag.startswith('r') else ' (fourth round: written against a tree already restructured by the behaviour-preserving refactoring named in "base"; patch.diff = base + change, relative to /repo)' if tag[0] in 'nmp' else ''),
                'base': (res.get('base') or None),
                'needs_to_manifest': 'see notes',
                'notes_from_author': notes,
                'confirmed_by': 'tools/eval_seeded.py in a scratch copy of /repo: existing suite with the change = 59 unit + 4 doc tests pass; demo (cargo test --test demo) fails with the change and passes without it',
                'checks_that_fire': fired,
                'first_report': first,
            }, open(os.path.join(d, 'meta.json'), 'w'), indent=1)
        print(json.dumps(res))
        return 0
    finally:
        shutil.rmtree(tmp, ignore_errors=True)


if __name__ == '__main__':
    sys.exit(main())
