#!/usr/bin/env python3
"""Developer aid (never run by a check): print `known:` lines for the replay files of a property."""
import json, os, sys
pid = sys.argv[1]
d = os.path.join(os.path.dirname(os.path.dirname(os.path.abspath(__file__))), 'out', pid)
for f in sorted(os.listdir(d), key=lambda x: int(x.split('.')[0])):
    r = json.load(open(os.path.join(d, f)))
    print('known: property=%s key=%s what=%s' % (pid, r['key'], r['what']))
