#!/usr/bin/env python3
"""Developer aid: write the self-contained task text handed to a fresh sub-agent that is to produce realistic
breaking changes for one property.  The sub-agent gets only the property text and its own scratch worktree.
usage: agent_prompt.py <property id> <worktree dir> <round> > prompt.txt"""
import json, sys

ROUND_TEXT = {
    '3': """This is a *third* round; earlier rounds already produced plain single-line slips, pairs of cooperating edits and
faults hidden behind new helpers. This time produce two changes of these two kinds:

variant a - "needle": the behaviour changes for exactly one narrow class of inputs, states or call histories (one
  command code, one value of one byte, one buffer length, one configuration, the second call after a specific first
  call, ...), and for everything else the library behaves exactly as before. Make the trigger something a reviewer
  would not think of trying, and make the change look like an ordinary maintenance edit (a bound "tidied", a constant
  replaced by an expression, an arm merged, an early return added, a cast moved, a default changed, a wrapping/saturating
  operation introduced, a table extended by one entry).

variant b - "inside a refactoring": restructure at least 60 lines of the code the property is about in a way that
  would pass review as a behaviour-preserving clean-up (extract helpers, table-driven dispatch, iterator chains,
  builder struct, early returns, merged arms, renamed locals ...), and let exactly one behaviour change that breaks
  the property ride along inside it. Everything else must behave as before.""",
    '4': """This is a later round; earlier rounds already produced plain slips, cooperating edits, narrow-trigger needles and
changes hidden in refactorings - all against the library's original code shape. The worktree you are given has since been
restructured by a (behaviour-preserving) refactoring, so the code does not look like the upstream repository any more. Read it
as it is now. Produce two changes that differ from each other in mechanism (for example: one in how a value is computed or
checked, one in how data or state travels between the new helpers / types / tables this code base now has). Prefer faults that
this particular code shape invites - a wrong table row, a helper called with swapped or stale arguments, a builder used in
the wrong order, an early return added in a shared helper, a bound that one of several callers relied on.""",
}


def main():
    pid, wt, rnd = sys.argv[1], sys.argv[2], sys.argv[3]
    prop = None
    for l in open('/verif/properties.jsonl'):
        d = json.loads(l)
        if d['id'] == pid:
            prop = d
    text = """You are helping to evaluate how well a verification effort protects a Rust library against regressions.

The library is libmctp (no_std Rust: encodes and decodes MCTP control and vendor-defined packets over the SMBus/I2C
binding, DSP0236/DSP0237, with PEC checks). A private scratch git worktree of it is at {wt} - work ONLY there. Do not
read or write anything under /verif or /repo, and do not look for any verification tooling: you are a developer who
only knows the library and the following property that its users rely on.

PROPERTY {pid}: {title}

{statement}

(Quantification: {quant})
(Why the existing unit tests cannot settle it: {why})
(Code it is anchored in: {anchors})

Your task: produce TWO different realistic changes to the library's source (under src/) that each BREAK this property
while the crate still compiles without new warnings and the existing test suite still passes completely
(`cd {wt} && CARGO_NET_OFFLINE=true cargo test --offline` must print `test result: ok. 59 passed` for the unit tests and
`test result: ok. 4 passed` for the doc tests; do not edit, add or delete any existing test, and do not touch tests
inside src/). No `unsafe`, no new dependencies, no cfg tricks, no dead or unreachable code: the change must be something
that could plausibly be merged by a maintainer in a hurry.

{round}

For each variant deliver, in {wt}/demo/ (create it):
  variant_a.diff / variant_b.diff   - `git diff -- src` of that variant alone against the worktree's HEAD (each variant
                                      is independent: `git checkout -- src` between them). It must apply with `git apply`.
  variant_a.rs / variant_b.rs       - a demonstration: an integration test file (it will be copied to tests/demo.rs; it
                                      uses only the public API of the `libmctp` crate) with one or more #[test]
                                      functions that PASS on the unchanged library and FAIL (assertion or panic) with the
                                      variant applied, by exhibiting a concrete input / call sequence on which the property
                                      is violated. Keep it small and deterministic.
  NOTES.md                          - for each variant: what was changed, why the property is broken, which concrete
                                      input shows it, why the existing tests do not notice, and the commands you ran
                                      with their outcome (suite with the change, demo without the change, demo with it).

Check all of it yourself before finishing: apply each diff to a clean `src`, run the suite, run the demo with and without
the change (put it in tests/demo.rs temporarily and remove it again; `cargo test --offline --test demo`). Leave the worktree
with `src` unchanged (git checkout -- src), no tests/ directory, only demo/ untracked. The sandbox has no network; use
`--offline`. Your final message: two sentences per variant saying what it changes and what input shows it.
""".format(wt=wt, pid=pid, title=prop['title'], statement=prop['statement'], quant=prop.get('quantifier', ''),
           why=prop.get('why_tests_cant', ''), anchors=json.dumps(prop.get('anchors', '')), round=ROUND_TEXT[rnd])
    sys.stdout.write(text)


if __name__ == '__main__':
    main()
