#!/bin/bash
# usage: tools/why_variant.sh <diff> : apply to a scratch copy, list distinct unanalysable reasons with the innermost frames
D=$1
T=$(mktemp -d /tmp/mctpsa-why-XXXX)
cp -r /repo $T/repo; rm -rf $T/repo/target $T/repo/.git
(cd $T/repo && git init -q . && git apply $D) || { echo "apply failed"; rm -rf $T; exit 1; }
LIBMCTP_REPO=$T/repo python3 - <<'PY' 2>&1 | grep -v WARNING
import sys, collections
sys.path.insert(0, '/verif/engine')
from catalog import Analysis
an = Analysis('dev')
seen = {}
for name in sorted(an.entries):
    try:
        leaves, na = an.leaves(name)
    except Exception as e:
        print('EXC', name, repr(e)[:200]); continue
    for lf in leaves:
        if lf.kind == 'unanalysable':
            k = lf.panic[1][:100]
            if k not in seen:
                seen[k] = 1
                print('==', name, '|', lf.panic[1][:300])
                for key, sp, _ in lf.stack[-5:]:
                    print('      ', key[:170], sp.replace('/root/.rustup/toolchains/nightly-x86_64-unknown-linux-gnu/lib/rustlib/src/rust/library/', ''))
            else:
                seen[k] += 1
print({k[:60]: v for k, v in seen.items()})
PY
rm -rf $T
