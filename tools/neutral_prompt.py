#!/usr/bin/env python3
"""Developer aid: write the self-contained task text handed to a fresh sub-agent that is to produce a
behaviour-preserving refactoring (a case on which no check may alarm).  The sub-agent gets no property and nothing
from /verif.  usage: neutral_prompt.py <nn> <worktree dir> > prompt.txt"""
import sys

SCOPES = {
    '21': ("the receive path in src/smbus.rs (`get_smbus_headers`, `decode_packet`, `get_mctp_control_packet`, `get_length`)",
           "Option/Result combinators instead of if/return ladders (`ok_or`, `ok_or_else`, `and_then`, `map`, `filter`, `?`), "
           "`matches!`, `if let .. else`, `let .. else`, `then_some`, `is_some_and`, range `contains`, `checked_sub`, `split_last`, `first()`"),
    '22': ("`process_packet` in src/smbus.rs",
           "two phases: first compute a private `Reply` enum value (one variant per kind of answer, carrying the fields the answer "
           "needs) from the decoded request, touching no buffer; then a second function encodes the `Reply` into the response buffer "
           "and applies the state updates. Keep the order of observable effects (EID updates, selector updates, buffer writes) as it is"),
    '23': ("src/control_packet.rs and src/base_packet.rs (enums, `From<u8>` impls, header constructors and validators)",
           "`impl From<Enum> for u8` / `u8::from(..)` instead of `as u8` casts where a conversion exists, associated consts, `const fn`, "
           "`#[derive]`s where useful, match guards, or-patterns and range patterns in the `From<u8>` tables (the mapping itself must "
           "stay identical for all 256 values), constructors written with struct-update or builder-style chained setters"),
    '24': ("src/smbus_proto.rs and the body serialisation in src/base_packet.rs (`MCTPSMBusPacket::new/len/to_raw_bytes`, `MCTPMessageBody`)",
           "a small private cursor type (`struct Writer<'a> { buf: &'a mut [u8], pos: usize }` with `put(u8)`, `put_slice(&[u8])`, "
           "`position()`), `split_at_mut`, `copy_from_slice`, `iter().chain()`, `first_chunk`/`split_first_chunk` if they fit; the panics "
           "on a too-small buffer must stay panics at the same point (same bytes written before the panic)"),
    '25': ("all request encoders in src/smbus_request.rs",
           "one private helper taking the command code and a small fixed-capacity private byte list type (`struct Bytes<const N: usize> "
           "{ data: [u8; N], len: usize }` with `push`, `extend_from_slice`, `as_slice`), or a `macro_rules!` that generates the simple "
           "encoders; public names, signatures, refusals and bytes unchanged (including the existing quirks - do not fix anything)"),
    '26': ("all response encoders in src/smbus_response.rs and the code in src/smbus.rs that calls them",
           "a private `ResponseData` builder (`new(completion_code)`, `.byte(..)`, `.bytes(&[..])`, `.finish()` returning a slice), "
           "`u8::from(bool)`, shifts written as multiplications or vice versa, `iter().take(n)`, `zip`, `enumerate`, `for_each`; "
           "the refusals (`Err(())`) and panics for over-long inputs must stay exactly where they are"),
    '27': ("the four provided `generate_*_packet_bytes` methods and the two length tables in src/mctp_traits.rs",
           "`usize::try_from` / `u8::try_from(..).map_err(..)`/`.ok()`, `checked_add`, `checked_sub`, `try_fold`/`try_for_each`, a private "
           "generic helper with a closure parameter (`impl FnOnce(..)`), a `const` lookup table of `(CommandCode, usize)` pairs searched "
           "with `iter().find(..)`/`position`, `Option::map_or`, `unwrap_or`; same call order of `generate_smbus_header` and "
           "`generate_transport_header`, same refusals"),
    '28': ("src/vendor_packets.rs and every place in src/smbus.rs, src/smbus_request.rs and src/smbus_response.rs that handles vendor IDs / vendor-defined messages",
           "slice patterns (`[a, b, rest @ ..]`, `[first, .., last]`), `split_first`, `split_last`, `u16::from_be_bytes`/`to_be_bytes`, "
           "`u32::to_be_bytes`, matching on tuples `(format, len)`, `get(i)` + `ok_or`, `iter().rev()`, `last()`, an `impl` block with "
           "`fn encoded_len(&self)`, `fn write_to(&self, &mut [u8]) -> usize`"),
    '29': ("error handling across src/smbus.rs and src/mctp_traits.rs",
           "a private `enum DecodeFailure { .. }` (one variant per reason) produced by the helpers and converted to the public error tuple "
           "`(MessageType, ControlMessageError)` in exactly one `From`/`into` place with `?` and `map_err`; early returns turned into `?`; "
           "public signatures and every returned error value unchanged"),
    '30': ("the whole crate (`src/*.rs`), many small edits rather than one big one",
           "what `cargo clippy -W clippy::pedantic` style modernisation would do: `usize::from(x)` for widening casts, `u8::from(bool)`, "
           "`let .. else`, `matches!`, `(a..=b).contains(&x)`, `is_some_and`, `then_some`, `saturating_sub` only where it cannot change a "
           "result, `iter().enumerate()` instead of index loops, `first()`/`last()`/`get(..)` instead of guarded indexing, `copy_from_slice` "
           "instead of element loops, `fill(0)`, `swap`, merged identical match arms, removed needless `return`/`clone`/borrows, "
           "`#[must_use]`, `Self` in impls"),
}


def main():
    nn, wt = sys.argv[1], sys.argv[2]
    scope, style = SCOPES[nn]
    sys.stdout.write("""You are a maintainer of libmctp (no_std Rust: encodes and decodes MCTP control and vendor-defined packets over the
SMBus/I2C binding, DSP0236/DSP0237, with PEC checks). A private scratch git worktree of it is at {wt} - work ONLY there.
Do not read or write anything under /verif or /repo. The sandbox has no network: always pass `--offline` to cargo.

Task: a BEHAVIOUR-PRESERVING refactoring of {scope}.

Make it substantial - at least 150 changed lines, more is welcome - and idiomatic. Techniques to use wherever they fit
(use as many of them as is reasonable, this list is the point of the exercise): {style}.

Hard requirements:
* Observable behaviour through the public API must be IDENTICAL for every input, configuration and call history: same
  `Ok`/`Err` values, same bytes written to caller-provided buffers (including the bytes written before a panic and the
  bytes left untouched), same panics (a panic must stay a panic and a non-panic must not become one; the message may
  differ), same state changes. Existing quirks and bugs are part of the behaviour: do not fix anything.
* No public name, signature or trait changes; no `unsafe`; no new dependencies or features; do not edit, add or remove any
  test inside src/; no new files under src/ (new private items in existing files are fine); no dead code; no warnings
  (`cargo build --offline` and `cargo clippy --offline` stay clean); run `cargo fmt` on the files you touched.
* `cd {wt} && CARGO_NET_OFFLINE=true cargo test --offline` must still print `test result: ok. 59 passed` (unit tests)
  and `test result: ok. 4 passed` (doc tests).

Prove the equivalence with a differential test, `demo/differential.rs` (it will be copied to tests/differential.rs; public
API of the `libmctp` crate only, std allowed in the test): drive the code you touched with a LARGE deterministic set of
inputs (hundreds of thousands of cases: every command code, boundary lengths and buffer sizes, all enum values,
hand-made and corrupted packets, sequences of calls on the same context, `catch_unwind` around every call), fold every
outcome (result value, complete buffer contents afterwards, relevant getters) into 64-bit FNV-1a hashes, capture the
hashes on the UNMODIFIED tree, hard-code them as the expected values, and assert them. The test must pass on the
unmodified tree and on the refactored tree. Check its sensitivity: temporarily introduce two or three small behaviour
changes in the code you touched and confirm that a hash changes; undo them.

Deliver in {wt}/demo/ (create it):
  refactor.diff     - `git diff -- src` of the refactoring against the worktree's HEAD (must apply with `git apply`)
  differential.rs   - the differential test with the hard-coded expected hashes
  NOTES.md          - what was restructured and with which idioms, size of the diff, how the differential test covers it, the
                      commands you ran with their outcomes, the sensitivity experiments
Leave the worktree with `src` unchanged (`git checkout -- src`), no tests/ directory, only demo/ untracked. Do not use
`git stash` (the stash is shared between worktrees). Final message: five sentences at most.
""".format(wt=wt, scope=scope, style=style))


if __name__ == '__main__':
    main()
