#!/usr/bin/env python3
"""Developer aid: write the self-contained task text handed to a fresh sub-agent that is to produce a
behaviour-preserving refactoring (a case on which no check may alarm).  The sub-agent gets no property and nothing
from /verif.  usage: neutral_prompt.py <nn> <worktree dir> > prompt.txt"""
import sys

OWN = ("no list this time: surprise the reviewer with ordinary Rust 2021 idioms of your own choosing - prefer ones that change the *shape* of the code "
       "(control flow, data structures, how values travel between functions) over cosmetic ones; say in NOTES.md which idioms you used")

SCOPES = {
    '21': ("the receive path in src/smbus.rs (`get_smbus_headers`, `decode_packet`, `get_mctp_control_packet`, `get_length`)",
           "Option/Result combinators instead of if/return ladders (`ok_or`, `ok_or_else`, `and_then`, `map`, `filter`, `?`), "
           "`matches!`, `if let .. else`, `let .. else`, `then_some`, `is_some_and`, range `contains`, `checked_sub`, `split_last`, `first()`"),
    '22': ("`process_packet` in src/smbus.rs",
           "two phases: first compute a private `Reply` enum value (one variant per kind of answer, carrying the fields the answer "
           "needs) from the decoded request, touching no buffer; then a second function encodes the `Reply` into the response buffer "
           "and applies the state updates. Keep the order of observable effects (EID updates, selector updates, buffer writes) as it is"),
    '23': ("src/control_packet.rs and src/base_packet.rs (enums, `From<u8>` impls, header constructors and validators)",
           "`impl From<Enum> for u8` / `u8::from(..)` instead of `as u8` casts where a conversion exists, associated consts, `const fn`, "
           "`#[derive]`s where useful, match guards, or-patterns and range patterns in the `From<u8>` tables (the mapping itself must "
           "stay identical for all 256 values), constructors written with struct-update or builder-style chained setters"),
    '24': ("src/smbus_proto.rs and the body serialisation in src/base_packet.rs (`MCTPSMBusPacket::new/len/to_raw_bytes`, `MCTPMessageBody`)",
           "a small private cursor type (`struct Writer<'a> { buf: &'a mut [u8], pos: usize }` with `put(u8)`, `put_slice(&[u8])`, "
           "`position()`), `split_at_mut`, `copy_from_slice`, `iter().chain()`, `first_chunk`/`split_first_chunk` if they fit; the panics "
           "on a too-small buffer must stay panics at the same point (same bytes written before the panic)"),
    '25': ("all request encoders in src/smbus_request.rs",
           "one private helper taking the command code and a small fixed-capacity private byte list type (`struct Bytes<const N: usize> "
           "{ data: [u8; N], len: usize }` with `push`, `extend_from_slice`, `as_slice`), or a `macro_rules!` that generates the simple "
           "encoders; public names, signatures, refusals and bytes unchanged (including the existing quirks - do not fix anything)"),
    '26': ("all response encoders in src/smbus_response.rs and the code in src/smbus.rs that calls them",
           "a private `ResponseData` builder (`new(completion_code)`, `.byte(..)`, `.bytes(&[..])`, `.finish()` returning a slice), "
           "`u8::from(bool)`, shifts written as multiplications or vice versa, `iter().take(n)`, `zip`, `enumerate`, `for_each`; "
           "the refusals (`Err(())`) and panics for over-long inputs must stay exactly where they are"),
    '27': ("the four provided `generate_*_packet_bytes` methods and the two length tables in src/mctp_traits.rs",
           "`usize::try_from` / `u8::try_from(..).map_err(..)`/`.ok()`, `checked_add`, `checked_sub`, `try_fold`/`try_for_each`, a private "
           "generic helper with a closure parameter (`impl FnOnce(..)`), a `const` lookup table of `(CommandCode, usize)` pairs searched "
           "with `iter().find(..)`/`position`, `Option::map_or`, `unwrap_or`; same call order of `generate_smbus_header` and "
           "`generate_transport_header`, same refusals"),
    '28': ("src/vendor_packets.rs and every place in src/smbus.rs, src/smbus_request.rs and src/smbus_response.rs that handles vendor IDs / vendor-defined messages",
           "slice patterns (`[a, b, rest @ ..]`, `[first, .., last]`), `split_first`, `split_last`, `u16::from_be_bytes`/`to_be_bytes`, "
           "`u32::to_be_bytes`, matching on tuples `(format, len)`, `get(i)` + `ok_or`, `iter().rev()`, `last()`, an `impl` block with "
           "`fn encoded_len(&self)`, `fn write_to(&self, &mut [u8]) -> usize`"),
    '29': ("error handling across src/smbus.rs and src/mctp_traits.rs",
           "a private `enum DecodeFailure { .. }` (one variant per reason) produced by the helpers and converted to the public error tuple "
           "`(MessageType, ControlMessageError)` in exactly one `From`/`into` place with `?` and `map_err`; early returns turned into `?`; "
           "public signatures and every returned error value unchanged"),
    '30': ("the whole crate (`src/*.rs`), many small edits rather than one big one",
           "what `cargo clippy -W clippy::pedantic` style modernisation would do: `usize::from(x)` for widening casts, `u8::from(bool)`, "
           "`let .. else`, `matches!`, `(a..=b).contains(&x)`, `is_some_and`, `then_some`, `saturating_sub` only where it cannot change a "
           "result, `iter().enumerate()` instead of index loops, `first()`/`last()`/`get(..)` instead of guarded indexing, `copy_from_slice` "
           "instead of element loops, `fill(0)`, `swap`, merged identical match arms, removed needless `return`/`clone`/borrows, "
           "`#[must_use]`, `Self` in impls"),
    # round 5: the agent chooses; one emphasis each
    '31': ("a part of the crate of your own choice (say which in NOTES.md); new private modules in new files under src/ are allowed this time",
           "traits with associated consts and default methods, const generics, small generic helpers with trait bounds, `impl Trait` arguments and "
           "return types, one trait object (`&dyn Fn(..)` or `&mut dyn FnMut(..)`) where it removes duplication"),
    '32': ("a part of the crate of your own choice (say which in NOTES.md)",
           "iterator adapters: `skip`, `take`, `step_by`, `scan`, `peekable`, `windows`, `chunks_exact` + `remainder`, `zip`, `rev`, `enumerate`, "
           "`take_while`, `min_by_key`/`max`, `last`, `sum::<u16>()`, `array::map`, `each_ref`, `iter::repeat`, `iter::once`, `chain`, `flatten`, `flat_map`"),
    '33': ("the state kept in `MCTPSMBusContext`, `MCTPSMBusContextRequest` and `MCTPSMBusContextResponse` (EID cells, vendor ID selector, UUID, configuration slices) and every function that reads or updates it",
           "`Cell::replace`, `Cell::take`, `Cell::update` or get/set pairs restructured, a private `State`/`Identity` sub-struct holding the fields, accessor "
           "methods instead of direct field access, `Option<NonZeroU8>` or a private newtype for values where it fits, `core::mem::replace`/`take`; the values "
           "observable through the public getters and through the packets must stay identical after every call sequence"),
    '34': ("the bit-level code: header views in src/base_packet.rs, src/control_packet.rs, src/smbus_proto.rs and every place that packs or unpacks bit fields",
           "masks and shifts rewritten in equivalent forms (`x * 16` / `x << 4`, `x / 2` / `x >> 1`, `x % 8` / `x & 7`, `a + b` where the fields do not overlap / `a | b`), "
           "`rotate_left`, `swap_bytes`, `reverse_bits` only where exactly equivalent, `u8::from(bool)`, `count_ones`, `leading_zeros`, `is_power_of_two` in validators "
           "where exactly equivalent, `core::num::Wrapping`, `wrapping_*`/`checked_*`/`saturating_*` where they cannot change a result, const fns computing masks"),
    '35': ("comparisons and searches across the crate (vendor ID matching, message type lists, command tables, address / EID checks, PEC comparison)",
           "slice equality `a == b`, `starts_with`/`ends_with`, `contains`, `iter().position`/`any`/`all`/`find`, `cmp`/`Ordering` matches, `min`/`max`/`clamp`, "
           "`abs_diff`, `Option::zip`, `bool::then`, `Result::and_then`, `matches!` with guards, sorted-table lookup written by hand (no `binary_search`)"),
    '36': ("a part of the crate of your own choice (say which in NOTES.md)", OWN),
    '37': ("the request side (src/smbus_request.rs and what it calls in src/mctp_traits.rs, src/smbus_proto.rs, src/base_packet.rs)", OWN),
    '38': ("the responder (`process_packet` in src/smbus.rs, src/smbus_response.rs and what they call)", OWN),
    '39': ("the decoder (`decode_packet`, `get_length` and their helpers in src/smbus.rs, the length tables in src/mctp_traits.rs, the `From<u8>` tables)", OWN),
    '40': ("src/mctp_traits.rs, src/smbus_proto.rs and src/base_packet.rs together (the packet assembly pipeline)", OWN),
    # round 6
    '41': ("`process_packet` and the command dispatch in src/smbus.rs",
           "a `const` dispatch table of `(CommandCode, fn(..) -> ..)` function pointers searched with `iter().find`, small free functions or "
           "associated functions as handlers, a function pointer chosen by `match` and called afterwards; keep `unimplemented!()` outcomes as panics"),
    '42': ("the packet assembly (src/mctp_traits.rs, src/smbus_proto.rs, src/base_packet.rs)",
           "`const` `Range<usize>` field positions (`const TRANSPORT: Range<usize> = 4..8; buf[TRANSPORT].copy_from_slice(..)`), named offset constants, "
           "a private `enum Section<'a> { Byte(u8), Bytes(&'a [u8]), .. }` list that is built first and written in a loop, `loop { match it.next() { .. } }` "
           "and `while i < n` loops instead of `for`, struct destructuring (`let Self { a, b, .. } = self;`), `ref`/`ref mut` patterns"),
    '43': ("the decoder (`decode_packet`, `get_length`, helpers, length tables)",
           "a small recursive-descent style: each layer is a function taking `&[u8]` and returning `Option<(Parsed, &[u8])>` with `?`, `split_first`, "
           "`split_at_checked`/`get(..n)`, nested enums carrying the parsed state, closures stored in variables, a closure returning a closure where it "
           "removes duplication, multi-byte fields assembled with `u16::from_be_bytes`/`u32::from_be_bytes` and taken apart with shifts"),
    '44': ("src/smbus_request.rs and src/smbus_response.rs", OWN),
    '45': ("src/smbus.rs", OWN),
    '46': ("the whole crate: small, local, independent edits in every file (at least 40 separate hunks)", OWN),
    # round 7: free choice, one file group each
    '51': ("src/base_packet.rs", OWN),
    '52': ("src/control_packet.rs and src/vendor_packets.rs", OWN),
    '53': ("src/smbus_proto.rs and src/mctp_traits.rs", OWN),
    '54': ("src/smbus_request.rs", OWN),
    '55': ("src/smbus_response.rs", OWN),
    '56': ("the receive half of src/smbus.rs (`get_length`, `decode_packet` and their private helpers; leave `process_packet` alone)", OWN),
    # round 8
    '61': ("the packet assembly (src/mctp_traits.rs, src/smbus_proto.rs, src/base_packet.rs)",
           "a private typestate builder (`struct Packet<'a, S> { buf: &'a mut [u8], pos: usize, _s: PhantomData<S> }` with states for "
           "'headers written' / 'body written'), methods consuming `self`, struct destructuring with `..`, a private struct implementing "
           "`Iterator<Item = &[u8]>` over the sections that is consumed with a `for` loop"),
    '62': ("the encoders in src/smbus_request.rs and src/smbus_response.rs",
           "a shrinking cursor (`let (head, rest) = core::mem::take(&mut cursor).split_at_mut(n); cursor = rest;`) for filling the data "
           "array, multi-byte fields assembled in a `u16`/`u32` word and emitted with `to_be_bytes`, `Option` combinators (`or`, `xor`, `and`, "
           "`or_else`, `unwrap_or_default`, `map_or_else`, `take`, `transpose`) where they fit, `core::convert::identity`"),
    '63': ("`process_packet`, the vendor ID selector handling and the identity answers in src/smbus.rs", OWN),
    '64': ("src/base_packet.rs, src/control_packet.rs and src/smbus_proto.rs (header views, validators, constructors)", OWN),
}


def main():
    nn, wt = sys.argv[1], sys.argv[2]
    scope, style = SCOPES[nn]
    sys.stdout.write("""You are a maintainer of libmctp (no_std Rust: encodes and decodes MCTP control and vendor-defined packets over the
SMBus/I2C binding, DSP0236/DSP0237, with PEC checks). A private scratch git worktree of it is at {wt} - work ONLY there.
Do not read or write anything under /verif or /repo. The sandbox has no network: always pass `--offline` to cargo.

Task: a BEHAVIOUR-PRESERVING refactoring of {scope}.

Make it substantial - at least 150 changed lines, more is welcome - and idiomatic. Techniques to use wherever they fit
(use as many of them as is reasonable, this list is the point of the exercise): {style}.

Hard requirements:
* Observable behaviour through the public API must be IDENTICAL for every input, configuration and call history: same
  `Ok`/`Err` values, same bytes written to caller-provided buffers (including the bytes written before a panic and the
  bytes left untouched), same panics (a panic must stay a panic and a non-panic must not become one; the message may
  differ), same state changes. Existing quirks and bugs are part of the behaviour: do not fix anything.
* No public name, signature or trait changes; no `unsafe`; no new dependencies or features; do not edit, add or remove any
  test inside src/; no new files under src/ unless the task text above explicitly allows them (new private items in existing files are fine); no dead code; no warnings
  (`cargo build --offline` and `cargo clippy --offline` stay clean); run `cargo fmt` on the files you touched.
* `cd {wt} && CARGO_NET_OFFLINE=true cargo test --offline` must still print `test result: ok. 59 passed` (unit tests)
  and `test result: ok. 4 passed` (doc tests).

Prove the equivalence with a differential test, `demo/differential.rs` (it will be copied to tests/differential.rs; public
API of the `libmctp` crate only, std allowed in the test): drive the code you touched with a LARGE deterministic set of
inputs (hundreds of thousands of cases: every command code, boundary lengths and buffer sizes, all enum values,
hand-made and corrupted packets, sequences of calls on the same context, `catch_unwind` around every call), fold every
outcome (result value, complete buffer contents afterwards, relevant getters) into 64-bit FNV-1a hashes, capture the
hashes on the UNMODIFIED tree, hard-code them as the expected values, and assert them. The test must pass on the
unmodified tree and on the refactored tree. Check its sensitivity: temporarily introduce two or three small behaviour
changes in the code you touched and confirm that a hash changes; undo them.

Deliver in {wt}/demo/ (create it):
  refactor.diff     - `git diff -- src` of the refactoring against the worktree's HEAD (must apply with `git apply`)
  differential.rs   - the differential test with the hard-coded expected hashes
  NOTES.md          - what was restructured and with which idioms, size of the diff, how the differential test covers it, the
                      commands you ran with their outcomes, the sensitivity experiments
Leave the worktree with `src` unchanged (`git checkout -- src`), no tests/ directory, only demo/ untracked. Do not use
`git stash` (the stash is shared between worktrees). Final message: five sentences at most.
""".format(wt=wt, scope=scope, style=style))


if __name__ == '__main__':
    main()
