#!/usr/bin/env python3
"""Developer aid (not a check): run every check on each commit of /repo from the pinned snapshot to HEAD in a
scratch worktree under /tmp and attribute each violation key that disappears to the `fix:` commit that removed it.
Prints `fixed:` lines for KNOWN_FINDINGS.txt."""
import json, os, shutil, subprocess, sys, tempfile
V = os.path.dirname(os.path.dirname(os.path.abspath(__file__)))
PIDS = ['C%02d' % i for i in range(1, 20)]
commits = subprocess.check_output(['git', '-C', '/repo', 'rev-list', '--reverse', 'HEAD'], text=True).split()
tmp = tempfile.mkdtemp(prefix='mctpsa-attr-')
wt = os.path.join(tmp, 'wt')
subprocess.check_call(['git', '-C', '/repo', 'worktree', 'add', '--detach', wt, commits[0]], stdout=subprocess.DEVNULL, stderr=subprocess.DEVNULL)
prev = None
try:
    for c in commits:
        subprocess.check_call(['git', '-C', wt, 'checkout', '-q', '--detach', c])
        out = os.path.join(tmp, 'out-' + c[:7])
        env = dict(os.environ, LIBMCTP_REPO=wt, MCTPSA_OUT=out)
        cur = {}
        for pid in PIDS:
            r = subprocess.run([os.path.join(V, 'check'), pid], env=env, stdout=subprocess.PIPE, stderr=subprocess.STDOUT, text=True)
            d = os.path.join(out, pid)
            if os.path.isdir(d):
                for f in os.listdir(d):
                    j = json.load(open(os.path.join(d, f)))
                    cur[(pid, j['key'])] = j['what']
            if 'CHECKER-ERROR' in r.stdout:
                sys.stderr.write('%s %s: %s\n' % (c[:7], pid, [l for l in r.stdout.splitlines() if 'CHECKER-ERROR' in l][:2]))
        subj = subprocess.check_output(['git', '-C', '/repo', 'log', '-1', '--format=%s', c], text=True).strip()
        sys.stderr.write('%s %-70s %d violations\n' % (c[:7], subj[:70], len(cur)))
        if prev is not None:
            gone = sorted(k for k in prev if k not in cur)
            if gone:
                print('# %s %s' % (c[:7], subj))
            for (pid, key) in gone:
                print('fixed: property=%s %s key=%s what=%s' % (pid, c[:7], key, prev[(pid, key)]))
            new = sorted(k for k in cur if k not in prev)
            for (pid, key) in new:
                sys.stderr.write('   NEW at %s: %s %s\n' % (c[:7], pid, key[:150]))
        prev = cur
finally:
    subprocess.call(['git', '-C', '/repo', 'worktree', 'remove', '--force', wt], stdout=subprocess.DEVNULL, stderr=subprocess.DEVNULL)
    shutil.rmtree(tmp, ignore_errors=True)
