EXTRA = {
    'C01': ('summary composition: decode_packet abstractly interpreted on the abstract output buffer of every encoder leaf (R-agree of writer and reader)', '4 C01', 'equality of the PEC on both sides is term identity'),
    'C02': ('path-sensitive must-pass-through (R-dom) of the whole-prefix PEC comparison on every accepting / acting leaf of decode_packet and process_packet; effect lists of rejecting leaves', '4 C02', 'the burst-error clause is CRC theory over a dependency and is not decided; only its structural premise is'),
    'C09': ('abstract interpretation of decode_packet; R-class: exhaustive enumeration of header-byte classes x PEC x length relation per leaf against a reference predicate; R-dep', '4 C09', ''),
    'C11': ('R-agree between the leaves of process_packet and their parent leaves of decode_packet; R-dom / effect lists for responding and non-responding leaves', '4 C11', 'process_packet under the valid-configuration precondition'),
    'C12': ('bit-level R-layout of the response buffer on every responding leaf of process_packet; constructor summary', '4 C12', 'process_packet under the valid-configuration precondition'),
    'C13': ('frame argument: who-may-write scan over every MIR body of the crate (Cell mutators, set_eid callers, raw pointers, &mut receivers, field visibility) + R-dom / effect lists over the leaves of all entry points', '4 C13', 'the induction over histories is argued in DESIGN.md; its premises are decided'),
    'C14': ('R-class over all 136 (selector, count) pairs by evaluating leaf guards and the next-selector term; bit-level R-layout of the vendor field on symbolic configuration', '4 C14', '1..16 sets, formats 0/1, selector below the count'),
    'C15': ('R-layout on the three identity-query leaves (list length case-split 0..30); R-frame on uuid; R-dep on free symbols', '4 C15', 'at most 30 configured message types'),
    'C18': ('bit-vector identity between interpreted accessor summaries (macro-generated BitRange code interpreted bit by bit) and reference layouts; validators evaluated on every raw value', '4 C18', 'storage types [u8; N] as constructed by the library'),
}
NOT_APPLICABLE = {}
