#!/usr/bin/env python3
"""Developer aid: confirm a behaviour-preserving refactoring written by a sub-agent (suite green, its differential test
passes with and without the refactoring) in a scratch copy, then run all checks on it: every report is a false alarm
to triage.  usage: eval_neutral.py <nn> [--save]"""
import json, os, re, shutil, subprocess, sys, tempfile
V = os.path.dirname(os.path.dirname(os.path.abspath(__file__)))
PIDS = ['C%02d' % i for i in range(1, 20)]


def sh(cmd, cwd, env=None):
    r = subprocess.run(cmd, cwd=cwd, env=env, shell=True, stdout=subprocess.PIPE, stderr=subprocess.STDOUT, text=True)
    return r.returncode, r.stdout


def main():
    nn = sys.argv[1]
    src = sys.argv[3] if len(sys.argv) > 3 and not sys.argv[3].startswith('--') else '/tmp/wn-%s/demo' % nn
    diff = os.path.join(src, 'refactor.diff')
    demo = os.path.join(src, 'differential.rs')
    res = {'neutral': nn}
    tmp = tempfile.mkdtemp(prefix='mctpsa-neu-')
    try:
        root = os.path.join(tmp, 'repo')
        shutil.copytree('/repo', root, ignore=shutil.ignore_patterns('target', '.git'))
        sh('git init -q . && git add -A && git -c user.email=x@x -c user.name=x commit -qm base', root)
        env = dict(os.environ, CARGO_NET_OFFLINE='true', CARGO_TARGET_DIR=os.path.join(tmp, 'target'))
        os.makedirs(os.path.join(root, 'tests'))
        shutil.copy(demo, os.path.join(root, 'tests', 'differential.rs'))
        rc, out = sh('cargo test --offline --test differential 2>&1 | tail -8', root, env)
        res['differential_passes_clean'] = 'test result: ok' in out and 'FAILED' not in out
        rc, out = sh('git apply %s' % diff, root)
        res['applies'] = rc == 0
        if rc != 0:
            print(json.dumps(dict(res, out=out[-300:])))
            return 1
        rc, out = sh('cargo test --offline --test differential 2>&1 | tail -8', root, env)
        res['differential_passes_refactored'] = 'test result: ok' in out and 'FAILED' not in out
        shutil.rmtree(os.path.join(root, 'tests'))
        rc, out = sh('cargo test --offline 2>&1 | grep -E "^test result|FAILED|warning|error" | head', root, env)
        res['suite_passes'] = bool(re.search(r'ok\. 59 passed', out)) and bool(re.search(r'ok\. 4 passed', out)) and 'FAILED' not in out
        rc, out = sh('git diff --stat | tail -1', root)
        res['size'] = out.strip()
        shutil.rmtree(os.path.join(tmp, 'target'), ignore_errors=True)
        cenv = dict(os.environ, LIBMCTP_REPO=root, MCTPSA_OUT=os.path.join(tmp, 'out'))
        alarms = {}
        for p in PIDS:
            r = subprocess.run([os.path.join(V, 'check'), p], env=cenv, stdout=subprocess.PIPE, stderr=subprocess.STDOUT, text=True)
            if r.returncode != 0:
                lines = [l.strip() for l in r.stdout.splitlines() if l.startswith('  rule ') or 'CHECKER-ERROR' in l or 'Error' in l]
                alarms[p] = lines[:3]
        res['false_alarms'] = alarms
        res['confirmed'] = res['differential_passes_clean'] and res['differential_passes_refactored'] and res['suite_passes']
        if '--save' in sys.argv and res['confirmed']:
            d = os.path.join(V, 'seeded', 'neutral-%s' % nn)
            os.makedirs(d, exist_ok=True)
            shutil.copy(diff, os.path.join(d, 'patch.diff'))
            shutil.copy(demo, os.path.join(d, 'demo.rs'))
            notes = open(os.path.join(src, 'NOTES.md')).read() if os.path.exists(os.path.join(src, 'NOTES.md')) else ''
            json.dump({'kind': 'neutral', 'breaks_property': None,
                       'origin': 'independent sub-agent asked for a behaviour-preserving refactoring of one part of the library',
                       'notes_from_author': notes,
                       'confirmed_by': 'tools/eval_neutral.py in a scratch copy: existing suite 59 + 4 pass; the differential test (hash of outcomes over many inputs, expected value captured on the unmodified tree) passes with and without the refactoring',
                       'checks_alarming': sorted(alarms), 'reports': alarms}, open(os.path.join(d, 'meta.json'), 'w'), indent=1)
        print(json.dumps(res))
    finally:
        shutil.rmtree(tmp, ignore_errors=True)


if __name__ == '__main__':
    sys.exit(main())
