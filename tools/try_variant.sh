#!/bin/bash
# usage: tools/try_variant.sh <diff file> <check ids...> : apply a diff to a scratch copy of /repo and run checks on it
D=$1; shift
T=$(mktemp -d /tmp/mctpsa-try-XXXX)
cp -r /repo $T/repo; rm -rf $T/repo/target $T/repo/.git
(cd $T/repo && git init -q . && git apply $D) || { echo "apply failed"; rm -rf $T; exit 1; }
for c in "$@"; do LIBMCTP_REPO=$T/repo MCTPSA_OUT=$T/out /verif/check $c 2>&1 | grep -v "^KNOWN" | head -${LINES_MAX:-14} | cut -c1-${COLS_MAX:-400}; done
rm -rf $T
