#!/usr/bin/env python3
"""Run the interpreter over every public function of a fixture crate; print leaf kinds and unanalysable reasons."""
import os, sys, collections
V = os.path.dirname(os.path.dirname(os.path.abspath(__file__)))
sys.path.insert(0, os.path.join(V, 'engine'))
from extract import extract
from interp import Interp, Program
from entries import default_args, dump_leaf
crate = sys.argv[1]
path, th = extract('dev', repo=os.path.join(V, 'fixtures', crate), crate=crate)
prog = Program(path)
bad = 0
for key in sorted(prog.instances):
    inst = prog.instances[key]
    if not inst['local'] or inst['crate'] != crate or '{closure' in key or inst['vis'] != 'pub':
        continue
    it = Interp(prog)
    try:
        leaves, na = it.run(key, default_args())
    except Exception as e:
        print('%-28s EXC %r' % (key, e)); bad += 1; continue
    kinds = collections.Counter(l.kind for l in leaves)
    un = [l for l in leaves if l.kind == 'unanalysable']
    print('%-28s %s' % (key, dict(kinds)))
    for l in un[:2]:
        bad += 1
        print('      UNANALYSABLE %s  at %s' % (l.panic[1], ' <- '.join(k.split('::')[-1] for k, _, _ in reversed(l.stack))[:150]))
    if len(sys.argv) > 2 and sys.argv[2] in key:
        for l in leaves: print(dump_leaf(l, prog, na))
print('unanalysable functions:', bad)
