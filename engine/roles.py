"""Roles of the private state, discovered from the public API instead of assumed from field names.

The rules speak about `self.request.eid`, `self.msg_types`, `self.vendor_id_selector`, ... - the names the private fields
have on the pinned tree.  A rename of a private field, or moving fields into a private sub-struct, changes no behaviour,
so the rules must not depend on those names.  This module finds, on the tree being analysed,

  * in each half (request / response context): the field `get_address()` returns and the cell `get_eid()` reads;
  * in the whole context: where `get_request()` / `get_response()` point, where `new(address, msg_types, vendor_ids)`
    stores its second and third argument, which field `set_uuid` writes, and which remaining cell is the vendor-ID
    selector (the only cell that is not an EID cell);

and returns rename tables  actual path -> canonical path  that the interpreter applies when it names symbolic inputs
(`build_sym`) and state cells (`describe_target`).  On the pinned tree every table is the identity.
If a role cannot be found (the getter does something else), it is simply not renamed: the rules then see the actual name
and report what they cannot certify - fail closed.
"""
from terms import leaves_of


def _only_in_leaf(term):
    try:
        ls = [l for l in leaves_of(term) if l[0] == 'in']
    except Exception:
        return None
    names = set(l[1] for l in ls)
    return names.pop() if len(names) == 1 else None


def _proj_names(prog, val, proj):
    """Field names along a projection made of field steps, starting at struct value `val`."""
    out = []
    v = val
    for p in proj:
        if p[0] != 'f' or v is None or v[0] != 'adt':
            return None
        out.append(prog.field_name(v[1], v[2], p[1]))
        v = v[3][p[1]]
    return tuple(out)


def _walk(prog, v, path, visit):
    visit(path, v)
    if v[0] == 'adt' and prog.adts[v[1]]['kind'] == 'struct':
        for i, f in enumerate(v[3]):
            _walk(prog, f, path + (prog.field_name(v[1], v[2], i),), visit)


def half_roles(an, tag):
    """tag: 'Req' | 'Resp' -> dict(address=rel path, eid=rel path) with what could be found."""
    out = {}
    try:
        leaves, _ = an.leaves('trait.%s.get_address' % tag)
        rets = [l for l in leaves if l.kind == 'return']
        if len(rets) == 1 and len(leaves) == 1:
            nm = _only_in_leaf(rets[0].value)
            if nm and nm[0] == 'self':
                out['address'] = tuple(nm[1:])
    except Exception:
        pass
    try:
        leaves, _ = an.leaves('trait.%s.get_eid' % tag)
        reads = set(e[1] for l in leaves for e in l.effects if e[0] == 'cellread')
        if len(reads) == 1:
            parts = reads.pop().split('.')
            if parts[0] == 'self':
                out['eid'] = tuple(parts[1:])
    except Exception:
        pass
    return out


def ctx_roles(an):
    prog = an.prog
    out = {}
    for name, ent in (('request', 'ctx.get_request'), ('response', 'ctx.get_response')):
        try:
            leaves, _ = an.leaves(ent)
            if len(leaves) == 1 and leaves[0].kind == 'return' and leaves[0].value[0] == 'ref':
                (root, proj) = leaves[0].value[1]
                if root == ('heap', 'self'):
                    p = _proj_names(prog, leaves[0].heap.get('self'), proj)
                    if p is not None:
                        out[name] = p
        except Exception:
            pass
    try:
        spec = an.entries['ctx.new']
        inst = prog.instances[spec['key']]
        pnames = dict((a, n) for a, n in inst['body']['names'])
        params = [pnames.get(i + 1) for i in range(len(inst['sig']['inputs']))]
        leaves, _ = an.leaves('ctx.new')
        rets = [l for l in leaves if l.kind == 'return']
        if len(rets) == 1 and len(params) == 3:
            cells = []

            def visit(path, v):
                if v[0] == 'slice' and v[1][0][0] == 'heap' and not v[1][1]:
                    if v[1][0][1] == params[1]:
                        out['msg_types'] = path
                    if v[1][0][1] == params[2]:
                        out['vendor_ids'] = path
                if v[0] == 'model' and v[1] == 'cell':
                    cells.append(path)
            _walk(prog, rets[0].value, (), visit)
            out['_cells'] = cells
    except Exception:
        pass
    try:
        leaves, _ = an.leaves('ctx.set_uuid')
        paths = set()
        for l in leaves:
            for e in l.effects:
                if e[0] == 'heapwrite' and e[1] == 'self':
                    fs = tuple(p for p in e[2] if p[0] == 'f')
                    paths.add(_proj_names(prog, l.heap.get('self'), fs))
        paths.discard(None)
        if len(paths) == 1:
            out['uuid'] = paths.pop()
    except Exception:
        pass
    return out


def tables(an):
    """-> dict(ctx=[(actual, canonical)...], Req=[...], Resp=[...]); identity pairs are dropped."""
    res = {'ctx': [], 'Req': [], 'Resp': []}
    halves = {t: half_roles(an, t) for t in ('Req', 'Resp')}
    for t in ('Req', 'Resp'):
        for role in ('address', 'eid'):
            if role in halves[t]:
                res[t].append((('self',) + halves[t][role], ('self', role)))
    c = ctx_roles(an)
    eid_cells = []
    for name, t in (('request', 'Req'), ('response', 'Resp')):
        if name in c:
            for role in ('address', 'eid'):
                if role in halves[t]:
                    res['ctx'].append((('self',) + c[name] + halves[t][role], ('self', name, role)))
                    if role == 'eid':
                        eid_cells.append(c[name] + halves[t][role])
    for role in ('msg_types', 'vendor_ids', 'uuid'):
        if role in c:
            res['ctx'].append((('self',) + c[role], ('self', role)))
    others = [p for p in c.get('_cells', []) if p not in eid_cells]
    if len(others) == 1 and len(eid_cells) == 2:
        res['ctx'].append((('self',) + others[0], ('self', 'vendor_id_selector')))
    found = {k: [(a, b) for a, b in v] for k, v in res.items()}
    found['ctx_halves'] = [(('self',) + c[name], ('self', name)) for name in ('request', 'response') if name in c]
    for k in res:
        res[k] = [(a, b) for a, b in res[k] if a != b]
    return res, found
