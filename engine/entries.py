"""Entry-point helpers: symbolic arguments from a function's signature, leaf dumps."""
from interp import Interp, Program, show_value
from terms import show_atom, show_term, K, USIZE, mk_lin, mk_cmp


def default_args(opts=None, overrides=None):
    """make_args: every parameter symbolic, named after the source-level parameter."""
    def make(interp, st, inst):
        body = inst['body']
        names = dict((a, n) for a, n in body['names'])
        out = []
        for i, ty in enumerate(inst['sig']['inputs']):
            nm = names.get(i + 1, 'arg%d' % (i + 1))
            if overrides and nm in overrides:
                out.append(overrides[nm](interp, st, ty, nm))
            else:
                out.append(interp.build_sym(st, ty, (nm,), opts=opts))
        return out
    return make


def len_leaf(*name):
    return ('len', tuple(name))


def len_term(*name):
    return mk_lin(USIZE, 0, {len_leaf(*name): 1})


def dump_leaf(lf, prog, n_assumed=0, heap=True):
    out = []
    out.append('leaf %s  [%s]' % (lf.kind, lf.entry))
    for a in lf.facts[n_assumed:]:
        out.append('   if  ' + show_atom(a))
    if lf.kind == 'return':
        out.append('   ->  ' + show_value(lf.value, prog))
    else:
        out.append('   !!  %s: %s' % lf.panic)
        out.append('   at  ' + ' <- '.join('%s (%s)' % (k.split('::')[-1], sp) for k, sp, _ in reversed(lf.stack)))
    for e in lf.effects:
        if e[0] == 'cellwrite':
            out.append('   eff cellwrite %s := %s' % (e[1], show_term(e[2])))
        elif e[0] == 'cellread':
            out.append('   eff cellread %s' % e[1])
        elif e[0] == 'outwrite':
            out.append('   eff outwrite %s[%s; +%s]' % (e[1], show_term(e[2]), show_term(e[3])))
    if heap:
        for name, obj in lf.heap.items():
            if obj[0] == 'buf' and obj[2]:
                for lo, n, content in obj[2]:
                    if content[0] == 'cells':
                        out.append('   buf %s[%s..+%s] = %s' % (name, show_term(lo), show_term(n), ' '.join(show_term(c) for c in content[1])))
                    elif content[0] == 'fill':
                        out.append('   buf %s[%s..+%s] = filled with %s' % (name, show_term(lo), show_term(n), show_term(content[1])))
                    else:
                        sb, slo, shi = content[1]
                        out.append('   buf %s[%s..+%s] = copy of %s[%s..%s]' % (name, show_term(lo), show_term(n), sb[0][1], show_term(slo), show_term(shi)))
    return '\n'.join(out)
