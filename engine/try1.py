import sys, time
sys.path.insert(0, '/verif/engine')
from interp import *
from entries import *
prog = Program(sys.argv[1])
it = Interp(prog)
key = prog.find(sys.argv[2])
t0 = time.time()
leaves, na = it.run(key, default_args())
print(key, len(leaves), 'leaves', '%.2fs' % (time.time() - t0), it.stats['steps'], 'steps', it.stats['forks'], 'forks')
from collections import Counter
print(Counter(l.kind for l in leaves))
for lf in leaves[: int(sys.argv[3]) if len(sys.argv) > 3 else 50]:
    print(dump_leaf(lf, prog, na))
