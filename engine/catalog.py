"""Catalogue of analysed entry points (discovered from the facts, not listed) and leaf cache."""
import os
import pickle
import re
import sys
import time

sys.path.insert(0, os.path.dirname(os.path.abspath(__file__)))
from extract import extract, CACHE  # noqa: E402
from interp import Interp, Program, Unsupported  # noqa: E402
from entries import default_args, len_term  # noqa: E402
from terms import K, USIZE, mk_cmp, Know  # noqa: E402

REQ = 'smbus_request::MCTPSMBusContextRequest'
RESP = 'smbus_response::MCTPSMBusContextResponse'
CTX = "smbus::MCTPSMBusContext::<'_>"
TRAIT = 'mctp_traits::SMBusMCTPRequestResponse'

ENGINE_VERSION = '46'


def vendor_format_domain(name):
    """'validly configured': every configured vendor ID set has format 0 (PCI) or 1 (IANA)."""
    if len(name) == 4 and name[:2] == ('self', 'vendor_ids') and name[3] == 'format':
        return (0, 1)
    return None


def valid_config(interp, st):
    return [
        mk_cmp('Ge', len_term('response_buf'), K(USIZE, 64))[1],
        mk_cmp('Le', len_term('self', 'msg_types'), K(USIZE, 30))[1],
        mk_cmp('Ge', len_term('self', 'vendor_ids'), K(USIZE, 1))[1],
        mk_cmp('Le', len_term('self', 'vendor_ids'), K(USIZE, 16))[1],
    ]


class Analysis:
    def __init__(self, profile='dev', repo=None):
        t0 = time.time()
        self.profile = profile
        self.fact_path, self.tree = extract(profile, repo=repo)
        self.prog = Program(self.fact_path)
        self.extract_s = time.time() - t0
        self._mem = {}
        self._roles = None
        self._roles_busy = False
        self.roles_found = {}
        self.interp_stats = {'steps': 0, 'forks': 0, 'instances': set(), 'entries': 0, 'leaves': 0}
        self.entries = self.discover()

    # ------------------------------------------------------------ discovery
    def has_mut_slice_param(self, inst):
        for t in inst['sig']['inputs']:
            if t['k'] == 'ref' and t['mut'] and t['to']['k'] == 'slice':
                return True
        return False

    def discover(self):
        """name -> spec dict(key, opts, assume, hook)."""
        P = self.prog
        ent = {}
        for key, inst in P.instances.items():
            if not inst['local'] or inst.get('closure') or not inst.get('sig'):
                continue
            path = inst['path']
            # public encoders of the two halves
            for pre, tag in ((REQ, 'req'), (RESP, 'resp')):
                if key.startswith(pre + '::') and inst['vis'] == 'pub':
                    fn = key[len(pre) + 2:]
                    if self.has_mut_slice_param(inst):
                        ent['%s.%s' % (tag, fn)] = dict(key=key)
                    else:
                        ent['%s-state.%s' % (tag, fn)] = dict(key=key)
            m = re.match(r'^<(%s|%s) as %s>::(\w+)$' % (re.escape(REQ), re.escape(RESP), re.escape(TRAIT)), key)
            if m:
                tag = 'Req' if m.group(1) == REQ else 'Resp'
                fn = m.group(2)
                if self.has_mut_slice_param(inst):
                    # message_header: &Option<&[u8]> analysed once as None and once as Some
                    ent['gen.%s.%s.none' % (tag, fn)] = dict(key=key, opts={('message_header',): 0})
                    ent['gen.%s.%s.some' % (tag, fn)] = dict(key=key, opts={('message_header',): 1})
                else:
                    ent['trait.%s.%s' % (tag, fn)] = dict(key=key)
            if key.startswith(CTX + '::'):
                fn = key[len(CTX) + 2:]
                if fn == 'process_packet':
                    ent['process_packet'] = dict(key=key, assume=valid_config, hook=vendor_format_domain)
                elif inst['vis'] == 'pub':
                    ent['ctx.' + fn] = dict(key=key)
            m = re.match(r'^(\w+)::(\w+)::<\[u8; (\d+)\]>::(\w+)$', key)
            if m and inst['crate'] == P.meta['crate']:
                ent['view.%s.%s' % (m.group(2), m.group(4))] = dict(key=key)
            if path.startswith('<') and ' as core::convert::From<u8>>::from' in key:
                m = re.match(r'^<([\w:]+) as core::convert::From<u8>>::from$', key)
                if m:
                    ent['from.' + m.group(1).split('::')[-1]] = dict(key=key)
        return ent

    # ------------------------------------------------------------ roles of the private state
    def rename_tables(self):
        """Rename tables actual -> canonical field paths (engine/roles.py), discovered once per analysis."""
        if self._roles is None:
            import roles
            self._roles_busy = True
            try:
                tabs, found = roles.tables(self)
            except Exception:
                tabs, found = {'ctx': [], 'Req': [], 'Resp': []}, {}
            finally:
                self._roles_busy = False
            self._roles, self.roles_found = tabs, found
        return self._roles

    @staticmethod
    def kind_of(name_or_key):
        n = name_or_key
        if n.startswith(('req.', 'req-state.', 'trait.Req.', 'gen.Req.')) or n.startswith((REQ + '::', '<' + REQ + ' as ')):
            return 'Req'
        if n.startswith(('resp.', 'resp-state.', 'trait.Resp.', 'gen.Resp.')) or n.startswith((RESP + '::', '<' + RESP + ' as ')):
            return 'Resp'
        if n.startswith('ctx.') or n == 'process_packet' or n.startswith(CTX + '::'):
            return 'ctx'
        return None

    def rename_for(self, name_or_key):
        if self._roles_busy:
            return []
        k = self.kind_of(name_or_key)
        return list(self.rename_tables().get(k, [])) if k else []

    def cell_images_for(self, key):
        """EID cells whose content is not a plain integer (e.g. Cell<Option<NonZeroU8>>): the symbolic initial content of
        such a cell is the image of the public setter `set_eid` applied to a canonical symbolic byte (named like the cell on
        the pinned tree), chosen lazily on the first read, so that everything read from the cell is expressed over that
        byte whatever the representation.  Empty on the pinned tree (Cell<u8>)."""
        if self._roles_busy:
            return {}
        kind = self.kind_of(key)
        if kind is None or '::set_eid' in key:
            return {}
        self.rename_tables()
        info = getattr(self, '_cell_reps', None)
        if info is None:
            info = self._cell_reps = self.cell_representations()
        todo = []
        if kind in ('Req', 'Resp'):
            if info.get(kind):
                todo.append((kind, ('self', 'eid')))
        else:
            for name, tag in (('request', 'Req'), ('response', 'Resp')):
                if info.get(tag):
                    todo.append((tag, ('self', name, 'eid')))
        out = {}
        for tag, leafname in todo:
            img = self.setter_image(tag, leafname)
            if img:
                out[leafname] = img
        return out

    def setter_image(self, tag, leafname):
        cache = self.__dict__.setdefault('_setter_images', {})
        if (tag, leafname) in cache:
            return cache[(tag, leafname)]
        from terms import mk_lin
        key = '<%s as %s>::set_eid' % (REQ if tag == 'Req' else RESP, TRAIT)
        res = None
        if key in self.prog.instances:
            rel = [a for a, c in self.roles_found.get(tag, []) if c == ('self', 'eid')]
            e = mk_lin(8, 0, {('in', leafname, 8, None): 1})

            def make(interp, st, inst):
                selfv = interp.build_sym(st, inst['sig']['inputs'][0], ('scratch',))
                return [selfv, e]
            try:
                it = Interp(self.prog, max_leaves=40, total_steps=20000)
                leaves, na = it.run(key, make)
                img = []
                ok = bool(rel) and bool(leaves)
                for l in leaves:
                    if l.kind != 'return':
                        ok = False
                        break
                    v = l.heap.get('scratch')
                    for nm in rel[0][1:]:
                        adt = self.prog.adts[v[1]]
                        idx = [i for i, f in enumerate(adt['variants'][0]['fields']) if f['name'] == nm][0]
                        v = v[3][idx]
                    if v[0] != 'model' or v[1] != 'cell':
                        ok = False
                        break
                    img.append((tuple(l.facts[na:]), v[2]))
                res = img if ok else None
            except Exception:
                res = None
        cache[(tag, leafname)] = res
        return res

    def cell_representations(self):
        """-> {'Req': bool, 'Resp': bool, 'paths': {'request': proj, 'response': proj}}: True where the EID cell of that
        half does not hold a plain integer."""
        out = {'paths': {}}
        P = self.prog
        for tag, pre in (('Req', REQ), ('Resp', RESP)):
            out[tag] = False
            found = [a for a, c in self.roles_found.get(tag, []) if c == ('self', 'eid')]
            adt = [a for i, a in P.adts.items() if a['path'] == pre]
            if len(found) != 1 or len(adt) != 1:
                continue
            ty = None
            cur = adt[0]
            try:
                for nm in found[0][1:]:
                    f = [f for f in cur['variants'][0]['fields'] if f['name'] == nm][0]
                    ty = f['ty']
                    cur = P.adt(ty) if ty['k'] == 'adt' else None
                if cur is not None and cur['path'] == 'core::cell::Cell':
                    inner = P.adt(cur['variants'][0]['fields'][0]['ty'])['variants'][0]['fields'][0]['ty']
                    out[tag] = inner['k'] not in ('int', 'bool')
            except Exception:
                pass
        # where the halves live inside the whole context: field indices along the discovered path
        ctx = [a for i, a in P.adts.items() if a['path'] == CTX.split('::<')[0]]
        for name in ('request', 'response'):
            pth = [a for a, c in self.roles_found.get('ctx_halves', []) if c == ('self', name)]
            if len(pth) == 1 and len(ctx) == 1:
                proj = []
                cur = ctx[0]
                try:
                    for nm in pth[0][1:]:
                        idx = [i for i, f in enumerate(cur['variants'][0]['fields']) if f['name'] == nm][0]
                        proj.append(('f', idx, None))
                        ty = cur['variants'][0]['fields'][idx]['ty']
                        cur = P.adt(ty) if ty['k'] == 'adt' else None
                    out['paths'][name] = tuple(proj)
                except Exception:
                    pass
        return out

    # ------------------------------------------------------------ leaves
    def leaves(self, name):
        """-> (leaves, n_assumed). Cached per (tree, profile, engine version, entry, rename table)."""
        ren = self.rename_for(name)
        mk = (name, repr(ren))
        if mk in self._mem:
            return self._mem[mk]
        spec = dict(self.entries[name], rename=ren)
        import hashlib
        rtag = ('-r' + hashlib.sha1(repr(ren).encode()).hexdigest()[:8]) if ren else ''
        fn = os.path.join(CACHE, 'leaves-%s-%s-v%s-%s%s.pkl' % (self.tree, self.profile, ENGINE_VERSION,
                                                              re.sub(r'[^\w.]', '_', name), rtag))
        if os.path.exists(fn) and not os.environ.get('MCTPSA_NOCACHE'):
            try:
                with open(fn, 'rb') as f:
                    r = pickle.load(f)
                import terms
                terms.OPS.update(r.get('ops', {}))
                self._mem[mk] = r['val']
                self._acc(r['stats'])
                return r['val']
            except Exception:
                pass
        val, stats = self.compute(spec)
        try:
            tmp = fn + '.%d.tmp' % os.getpid()
            with open(tmp, 'wb') as f:
                import terms
                pickle.dump({'val': val, 'stats': stats, 'ops': dict(terms.OPS)}, f, protocol=pickle.HIGHEST_PROTOCOL)
            os.replace(tmp, fn)
        except Exception:
            pass
        self._mem[mk] = val
        self._acc(stats)
        return val

    def _acc(self, stats):
        s = self.interp_stats
        s['steps'] += stats['steps']
        s['forks'] += stats['forks']
        s['instances'] |= stats['instances']
        s['entries'] += 1
        s['leaves'] += stats['leaves']

    GLOBAL_STEP_BUDGET = 9000000
    MAX_LEAVES_PER_ENTRY = 3000

    def compute(self, spec, make_args=None, init_know=None):
        it = Interp(self.prog)
        if self.interp_stats['steps'] > self.GLOBAL_STEP_BUDGET:
            it.total_steps = 20000      # the run as a whole is over budget: remaining entries fail closed quickly
        it.domain_hook = spec.get('hook')
        it.rename = spec.get('rename') if spec.get('rename') is not None else self.rename_for(spec['key'])
        it.cell_images = self.cell_images_for(spec['key'])
        ma = make_args or default_args(opts=spec.get('opts'), overrides=spec.get('overrides'))
        try:
            leaves, na = it.run(spec['key'], ma, spec.get('assume'), label=spec.get('label'))
        except Exception as e:      # fail closed: the whole entry point becomes one unanalysable leaf
            from interp import Leaf
            from terms import Know
            lf = Leaf()
            lf.kind = 'unanalysable'
            lf.value = None
            lf.facts = []
            lf.know = Know()
            lf.effects = []
            lf.heap = {}
            sp = self.prog.instances[spec['key']]['span']['at']
            lf.stack = [(spec['key'], sp, sp)]
            lf.panic = ('unsupported', 'the interpreter failed on this entry point: %s: %s' % (type(e).__name__, str(e)[:200]))
            lf.entry = spec.get('label') or spec['key']
            lf.notes = []
            leaves, na = [lf], 0
        if len(leaves) > self.MAX_LEAVES_PER_ENTRY:
            # path explosion (e.g. a table-driven checksum indexed by symbolic bytes): fail closed as one unanalysable leaf
            n_ = len(leaves)
            lf = leaves[0]
            lf.kind = 'unanalysable'
            lf.value = None
            lf.facts = lf.facts[:na]
            lf.effects = []
            lf.heap = {}
            sp = self.prog.instances[spec['key']]['span']['at']
            lf.stack = [(spec['key'], sp, sp)]
            lf.panic = ('budget', 'path explosion: more than %d paths (%d explored) - a computation over symbolic data the analyser cannot summarise' % (self.MAX_LEAVES_PER_ENTRY, n_))
            from terms import Know
            k = Know()
            for a in lf.facts:
                try:
                    k.assume(a)
                except Exception:
                    pass
            lf.know = k
            leaves = [lf]
        stats = dict(it.stats)
        stats['leaves'] = len(leaves)
        return (leaves, na), stats

    def run_custom(self, key, make_args, assume=None, hook=None, label=None):
        """Uncached interpretation with custom arguments (summary composition)."""
        it = Interp(self.prog, max_leaves=400, total_steps=150000 if self.interp_stats['steps'] < self.GLOBAL_STEP_BUDGET else 10000)
        it.domain_hook = hook
        it.rename = self.rename_for(key)
        leaves, na = it.run(key, make_args, assume, label=label)
        stats = dict(it.stats)
        stats['leaves'] = len(leaves)
        self._acc(stats)
        return leaves, na
