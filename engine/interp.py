"""Abstract interpreter over the monomorphic MIR facts (path-partitioned, no solver).

A run of one entry point yields *leaves*: for every path through the inlined control-flow
graph the guard (facts), the outcome (return value / panic / unanalysable), the ordered
effects and the final abstract heap.  See DESIGN.md section 3.3.
"""
import json
import re
from terms import (K, TRUE, FALSE, USIZE, Unsupported, Infeasible, Know, mask, width, is_const,
                   mk_bv, mk_lin, bits_of, lin_of, mk_cmp, t_not, bitop, shl, shr, cast_bits,
                   show_term, show_atom, show_name, mk_not, intern_op)

UNIT = ('unit',)
UNINIT = ('uninit',)


class Panic(Exception):
    def __init__(self, kind, msg, detail=None):
        Exception.__init__(self, kind, msg)
        self.kind = kind
        self.msg = msg
        self.detail = detail


class Fork(Exception):
    def __init__(self, atom):
        self.atom = atom


class Program:
    def __init__(self, path):
        with open(path) as f:
            d = json.load(f)
        self.meta = d['meta']
        self.instances = d['instances']
        self.adts = d['adts']
        self.roots = d['roots']
        self.bodies = d['bodies']
        self.generic_fns = d['generic_fns']
        self.by_path = {}
        for k, i in self.instances.items():
            self.by_path.setdefault(i['path'], []).append(k)

    def find(self, suffix):
        """Unique instance whose key ends with / equals suffix."""
        hits = [k for k in self.instances if k == suffix or k.endswith('::' + suffix) or k.endswith(suffix)]
        exact = [k for k in hits if k == suffix]
        if exact:
            return exact[0]
        if len(hits) != 1:
            raise KeyError('instance %r: %d matches %r' % (suffix, len(hits), hits[:5]))
        return hits[0]

    def adt(self, tyj):
        return self.adts[tyj['id']]

    def field_name(self, adt_id, variant, i):
        try:
            return self.adts[adt_id]['variants'][variant]['fields'][i]['name']
        except Exception:
            return str(i)


class NotAClosure(Unsupported):
    """The callable handed to a modelled higher-order method cannot be identified as a closure instance (raised before
    anything has been executed, so the caller may fall back to another way of interpreting the call)."""


class Frame:
    __slots__ = ('fid', 'key', 'inst', 'body', 'locals', 'bb', 'si', 'dest', 'ret_bb', 'call_span', 'prologue')

    def clone(self):
        f = Frame.__new__(Frame)
        f.fid = self.fid
        f.key = self.key
        f.inst = self.inst
        f.body = self.body
        f.locals = dict(self.locals)
        f.bb = self.bb
        f.si = self.si
        f.dest = self.dest
        f.ret_bb = self.ret_bb
        f.call_span = self.call_span
        f.prologue = getattr(self, 'prologue', None)
        return f


class State:
    __slots__ = ('frames', 'perm', 'heap', 'know', 'effects', 'next_fid', 'steps', 'notes')

    def clone(self):
        s = State.__new__(State)
        s.frames = [f.clone() for f in self.frames]
        s.perm = dict(self.perm)        # shared frames, copied on write (frame_mut): FnMut closure state lives here
        s.heap = dict(self.heap)
        s.know = self.know.clone()
        s.effects = list(self.effects)
        s.next_fid = self.next_fid
        s.steps = self.steps
        s.notes = list(self.notes)
        return s

    def restore(self, snap):
        """Become `snap` (a clone taken earlier) in place; `snap` must not be used afterwards."""
        steps = self.steps
        for a in State.__slots__:
            setattr(self, a, getattr(snap, a))
        self.steps = steps

    def frame(self, fid):
        for f in reversed(self.frames):
            if f.fid == fid:
                return f
        f = self.perm.get(fid)
        if f is None:
            raise Unsupported('dangling reference to frame %d' % fid)
        return f

    def frame_mut(self, fid):
        """The frame `fid` for writing: permanent slots are shared between cloned states and copied on write."""
        for f in reversed(self.frames):
            if f.fid == fid:
                return f
        f = self.perm.get(fid)
        if f is None:
            raise Unsupported('dangling reference to frame %d' % fid)
        f = f.clone()
        self.perm[fid] = f
        return f


class Leaf:
    __slots__ = ('kind', 'value', 'facts', 'know', 'effects', 'heap', 'stack', 'panic', 'entry', 'notes')

    def site(self):
        return self.stack[-1][1] if self.stack else '?'


def ty_bits(t):
    k = t['k']
    if k == 'int':
        return t['bits']
    if k == 'bool':
        return 1
    if k == 'char':
        return 32
    raise Unsupported('not an integer type: %s' % k)


def size_lower_bound(prog, t):
    """A lower bound of size_of::<t>() in bytes (exact for integers and arrays of them)."""
    k = t['k']
    if k == 'int':
        return t['bits'] // 8
    if k in ('bool',):
        return 1
    if k == 'char':
        return 4
    if k == 'array':
        return (t['len'] or 0) * size_lower_bound(prog, t['elem'])
    if k == 'tuple':
        return sum(size_lower_bound(prog, e) for e in t['elems'])
    if k == 'adt':
        a = prog.adts.get(t['id'])
        if a and a['kind'] == 'struct':
            return sum(size_lower_bound(prog, f['ty']) for f in a['variants'][0]['fields'])
        return 0
    if k in ('ref', 'ptr'):
        return 8
    return 0


def ty_signed(t):
    return t['k'] == 'int' and t['signed']


class Interp:
    def __init__(self, prog, max_leaves=3500, max_steps=700000, total_steps=3000000):
        self.prog = prog
        self.max_leaves = max_leaves
        self.max_steps = max_steps
        self.total_steps = total_steps
        self.stats = {'steps': 0, 'forks': 0, 'instances': set()}
        self.domain_hook = None
        self.rename = []        # [(actual name tuple, canonical name tuple)]: roles of private state (engine/roles.py)
        self.cell_images = {}   # canonical cell name -> [(facts, content)]: image of the public setter (catalog.cell_images_for)

    # ------------------------------------------------------------------ symbolic inputs
    def build_sym(self, st, ty, name, heapname=None, opts=None):
        """A symbolic value of type ty whose leaves are named by the path `name` (tuple)."""
        opts = opts or {}
        k = ty['k']
        for a_, c_ in self.rename:
            if name == a_:
                name = c_
                break
        if k == 'int':
            dom = self.domain_hook(name) if self.domain_hook else None
            return mk_lin(ty['bits'], 0, {('in', name, ty['bits'], dom): 1})
        if k == 'bool':
            return mk_lin(1, 0, {('in', name, 1, None): 1})
        if k == 'unit':
            return UNIT
        if k == 'array':
            return ('array', tuple(self.build_sym(st, ty['elem'], name + (i,)) for i in range(ty['len'])))
        if k == 'tuple':
            return ('tuple', tuple(self.build_sym(st, e, name + (i,)) for i, e in enumerate(ty['elems'])))
        if k == 'adt':
            adt = self.prog.adt(ty)
            path = adt['path']
            if path == 'core::cell::Cell':
                inner = adt['variants'][0]['fields'][0]['ty']  # UnsafeCell<T>
                inner_adt = self.prog.adt(inner)
                t = inner_adt['variants'][0]['fields'][0]['ty']
                if name in self.cell_images:
                    # content = what the public setter stores for a canonical symbolic value; chosen on first read
                    return ('model', 'cell', ('lazyinit', name))
                return ('model', 'cell', self.build_sym(st, t, name))
            if path in ('core::num::NonZero', 'core::num::nonzero::NonZero'):
                # represented by the integer it wraps (see the NonZero::new / get models): a leaf that is never 0
                mt = re.search(r'NonZero<([ui])(\d+|size)>', ty.get('id', '') + ty.get('path', ''))
                bits_ = 64 if (mt and mt.group(2) == 'size') else (int(mt.group(2)) if mt else None)
                if bits_ is None or bits_ > 8:
                    raise Unsupported('symbolic NonZero wider than 8 bits for %s' % (name,))
                return mk_lin(bits_, 0, {('in', name, bits_, tuple(range(1, 1 << bits_))): 1})
            if adt['kind'] == 'struct':
                vals = tuple(self.build_sym(st, f['ty'], name + (f['name'],)) for f in adt['variants'][0]['fields'])
                return ('adt', ty['id'], 0, vals)
            if adt['kind'] == 'enum':
                if all(not v['fields'] for v in adt['variants']):
                    dom = tuple(sorted(int(v['discr']) for v in adt['variants']))
                    w = adt['discr_ty']['bits']
                    leaf = ('in', name, w, dom)
                    return ('symenum', ty['id'], mk_lin(w, 0, {leaf: 1}))
                v = opts.get(name)
                if v is None:
                    # the variant is chosen (by forking) when the value is first inspected
                    return ('lazy', ty, name)
                variant = adt['variants'][v]
                vals = tuple(self.build_sym(st, f['ty'], name + (f['name'],), opts=opts) for f in variant['fields'])
                return ('adt', ty['id'], v, vals)
        if k == 'ref':
            to = ty['to']
            hn = show_name(name)
            if to['k'] == 'slice':
                if ty['mut']:
                    st.heap[hn] = ('buf', hn, ())
                else:
                    st.heap[hn] = ('symslice', name, to['elem'])
                lenleaf = ('len', name)
                ln = mk_lin(USIZE, 0, {lenleaf: 1})
                # environment assumption (DESIGN.md 7.3): no slice has more than 2^48 elements - beyond any address space of a
                # supported target - so sums of a few lengths and small constants do not overflow usize
                st.know._add_bound(0, {lenleaf: 1}, 0, min(1 << 48, ((1 << 63) - 1) // max(1, size_lower_bound(self.prog, to['elem']))))
                return ('slice', (('heap', hn), ()), K(USIZE, 0), ln)
            st.heap[hn] = self.build_sym(st, to, name, opts=opts)
            return ('ref', (('heap', hn), ()))
        raise Unsupported('cannot build symbolic %s for %s' % (k, name))

    # ------------------------------------------------------------------ memory
    def materialise(self, st, lz):
        """Choose the variant of a lazily symbolic enum (forks once per variant), build its symbolic payload."""
        _, ty, name = lz
        adt = self.prog.adt(ty)
        dom = tuple(sorted(int(v['discr']) for v in adt['variants']))
        w = adt['discr_ty']['bits'] if adt.get('discr_ty') else 64
        leaf = ('in', name + ('#variant',), w, dom)
        d = mk_lin(w, 0, {leaf: 1})
        for vi, v in enumerate(adt['variants']):
            if self.need(st, mk_cmp('Eq', d, K(w, int(v['discr'])))):
                vals = tuple(self.build_sym(st, f['ty'], name + (v['name'], f['name'])) for f in v['fields'])
                return ('adt', ty['id'], vi, vals)
        raise Infeasible()

    def read(self, st, target):
        root, proj = target
        if root[0] == 'local':
            v = st.frame(root[1]).locals.get(root[2], UNINIT)
        else:
            v = st.heap[root[1]]
        return self._walk(st, v, proj, target)

    def _walk(self, st, v, proj, target):
        for i, p in enumerate(proj):
            if v[0] == 'lazy':
                v = self.materialise(st, v)
            kind = v[0]
            if p[0] == 'f':
                if kind == 'adt':
                    if p[2] is not None and p[2] != v[2]:
                        raise Unsupported('field access through wrong variant')
                    v = v[3][p[1]]
                elif kind == 'tuple':
                    v = v[1][p[1]]
                elif kind == 'closure':
                    v = v[2][p[1]]
                elif kind == 'model' and v[1] in ('rangeincl',):
                    v = v[2 + p[1]]
                else:
                    raise Unsupported('field of %s' % kind)
            elif p[0] == 'i':
                idx = p[1]
                if kind == 'array':
                    if not is_const(idx):
                        tl = self.table_lookup(st, v, idx) if i == len(proj) - 1 else None
                        if tl is not None:
                            v = tl
                            continue
                        idx = self.split_index(st, idx, len(v[1]))
                    if idx[2] >= len(v[1]):
                        raise Unsupported('index %d out of array bounds %d (missing bounds check?)' % (idx[2], len(v[1])))
                    v = v[1][idx[2]]
                elif kind == 'symslice':
                    nm = v[1] + ((idx[2],) if is_const(idx) else (idx,))
                    v = self.build_sym(st, v[2], nm)
                elif kind == 'buf':
                    v = self.buf_read(st, v, idx)
                elif is_const(idx) and idx[2] == 0 and kind in ('k', 'bv', 'lin', 'adt', 'tuple', 'symenum'):
                    pass     # a place viewed as a one-element slice (slice::from_ref)
                else:
                    raise Unsupported('index into %s' % kind)
            else:
                raise Unsupported('projection %r' % (p,))
        return v

    def write(self, st, target, val):
        root, proj = target
        if root[0] == 'local':
            fr = st.frame_mut(root[1])
            old = fr.locals.get(root[2], UNINIT)
            fr.locals[root[2]] = self._update(st, old, proj, val)
        else:
            old = st.heap[root[1]]
            if old[0] == 'buf':
                if len(proj) != 1 or proj[0][0] != 'i':
                    raise Unsupported('write into buffer through %r' % (proj,))
                st.heap[root[1]] = ('buf', old[1], old[2] + ((proj[0][1], K(USIZE, 1), ('cells', (val,))),))
                st.effects.append(('outwrite', old[1], proj[0][1], K(USIZE, 1)))
                return
            if old[0] == 'symslice':
                raise Unsupported('write into immutable input %s' % root[1])
            st.heap[root[1]] = self._update(st, old, proj, val)
            st.effects.append(('heapwrite', root[1], proj))

    def _update(self, st, old, proj, val):
        if not proj:
            return val
        p = proj[0]
        kind = old[0]
        if p[0] == 'f':
            if kind == 'adt':
                vals = list(old[3])
                vals[p[1]] = self._update(st, vals[p[1]], proj[1:], val)
                return ('adt', old[1], old[2], tuple(vals))
            if kind == 'tuple':
                vals = list(old[1])
                vals[p[1]] = self._update(st, vals[p[1]], proj[1:], val)
                return ('tuple', tuple(vals))
            if kind == 'closure':
                vals = list(old[2])
                vals[p[1]] = self._update(st, vals[p[1]], proj[1:], val)
                return ('closure', old[1], tuple(vals)) + tuple(old[3:])
            if kind == 'model' and old[1] == 'rangeincl':
                vals = list(old)
                vals[2 + p[1]] = self._update(st, vals[2 + p[1]], proj[1:], val)
                return tuple(vals)
            raise Unsupported('field update of %s' % kind)
        if p[0] == 'i':
            if kind == 'array':
                idx = p[1]
                if not is_const(idx):
                    idx = self.split_index(st, idx, len(old[1]))
                if idx[2] >= len(old[1]):
                    raise Unsupported('store index out of array bounds')
                vals = list(old[1])
                vals[idx[2]] = self._update(st, vals[idx[2]], proj[1:], val)
                return ('array', tuple(vals))
            if is_const(p[1]) and p[1][2] == 0 and kind in ('k', 'bv', 'lin', 'adt', 'tuple', 'symenum', 'uninit'):
                return self._update(st, old, proj[1:], val)     # slice::from_mut view of a single place
            raise Unsupported('index update of %s' % kind)
        raise Unsupported('update projection %r' % (p,))

    # -- output buffers: ordered writes (lo, n, content)
    def buf_read(self, st, buf, idx):
        """Value of buf[idx] given the writes so far; initial content if never written."""
        kn = st.know
        for (lo, n, content) in reversed(buf[2]):
            # idx in [lo, lo+n) ?
            c_idx, t_idx = lin_of(idx)
            c_lo, t_lo = lin_of(lo)
            c_n, t_n = lin_of(n)
            d = dict(t_idx)
            for l, c in t_lo.items():
                d[l] = d.get(l, 0) - c
            dlo, dhi = kn.interval(c_idx - c_lo, d)          # idx - lo
            e = dict(d)
            for l, c in t_n.items():
                e[l] = e.get(l, 0) - c
            elo, ehi = kn.interval(c_idx - c_lo - c_n, e)     # idx - lo - n
            if dhi < 0 or elo >= 0:
                continue  # disjoint
            if dlo >= 0 and ehi < 0:
                # inside
                if content[0] == 'cells':
                    if dlo != dhi:
                        raise Unsupported('read of buffer cell at non-constant offset inside a write')
                    return content[1][dlo]
                if content[0] == 'fill':
                    return content[1]
                if content[0] == 'copy':
                    (sbase, slo, shi) = content[1]
                    off = mk_lin(USIZE, c_idx - c_lo, d)
                    return self.read_elem(st, sbase, self.add(slo, off))
                raise Unsupported('buffer content %s' % content[0])
            raise Unsupported('cannot decide whether buffer read at %s overlaps a write at %s (+%s)' %
                              (show_term(idx), show_term(lo), show_term(n)))
        nm = (buf[1] + '@init',) + ((idx[2],) if is_const(idx) else (idx,))
        return mk_lin(8, 0, {('in', nm, 8, None): 1})

    def read_elem(self, st, base_target, idx):
        root, proj = base_target
        return self.read(st, (root, proj + (('i', idx),)))

    # ------------------------------------------------------------------ arithmetic helpers
    def add(self, a, b):
        ca, ta = lin_of(a)
        cb, tb = lin_of(b)
        d = dict(ta)
        for l, c in tb.items():
            d[l] = d.get(l, 0) + c
        return mk_lin(width(a), ca + cb, d)

    def sub(self, a, b):
        ca, ta = lin_of(a)
        cb, tb = lin_of(b)
        d = dict(ta)
        for l, c in tb.items():
            d[l] = d.get(l, 0) - c
        return mk_lin(width(a), ca - cb, d)

    def table_lookup(self, st, arr, idx):
        """A constant table of integers indexed by a value that can still take many values (a CRC or S-box table indexed by
        a data byte): the element is an uninterpreted but determined function of the index - no 256-way fork.  Small index
        ranges are still enumerated (split_index), which is what the rules want for command-code tables."""
        cells = arr[1]
        if len(cells) < 65 or not all(c[0] == 'k' for c in cells):
            return None
        idx = self.conc(st, idx)
        if is_const(idx):
            return None
        c0, ts = lin_of(idx)
        lo, hi = st.know.interval(c0, ts)
        lo, hi = max(lo, 0), min(hi, len(cells) - 1)
        if hi - lo < 64 or hi > len(cells) - 1:
            return None
        ws = set(c[1] for c in cells)
        if len(ws) != 1:
            return None
        w = ws.pop()
        if st.know.interval(c0, ts)[1] > len(cells) - 1:
            return None         # the index may be out of bounds: let the ordinary path report it
        key = intern_op(('tbl', tuple(c[2] for c in cells), idx))
        leaf = ('opq', w, 'op', key)
        return mk_bv(w, tuple((leaf, i) for i in range(w)))

    def split_index(self, st, idx, n):
        """A symbolic index into an array of n cells: enumerate its feasible values (forks), return the constant."""
        idx = self.conc(st, idx)
        if is_const(idx):
            return idx
        c0, ts = lin_of(idx)
        lo, hi = st.know.interval(c0, ts)
        lo, hi = max(lo, 0), min(hi, n - 1)
        if hi - lo > 300:
            raise Unsupported('symbolic index into an array: %s ranges over more than 300 cells' % show_term(idx))
        for v in range(lo, hi + 1):
            if self.need(st, mk_cmp('Eq', idx, K(width(idx), v))):
                return K(USIZE, v)
        raise Unsupported('index %s out of array bounds %d (missing bounds check?)' % (show_term(idx), n))

    def conc(self, st, t):
        """A term whose value the path facts pin to one number becomes that constant."""
        if t[0] in ('lin', 'bv'):
            try:
                c0, ts = lin_of(t)
                lo, hi = st.know.interval(c0, ts)
            except Unsupported:
                return t
            if lo == hi and 0 <= lo <= mask(width(t)):
                return K(width(t), lo)
        return t

    def diff_interval(self, st, a, b):
        """Interval of the exact integer a - b."""
        ca, ta = lin_of(a)
        cb, tb = lin_of(b)
        d = dict(ta)
        for l, c in tb.items():
            d[l] = d.get(l, 0) - c
        return st.know.interval(ca - cb, d)

    def need(self, st, atom_term, want=True):
        """Decide a boolean term under the path facts; fork when undecided. Returns bool."""
        if is_const(atom_term):
            return bool(atom_term[2]) == want
        if atom_term[0] != 'atom':
            if width(atom_term) == 1:
                atom_term = mk_cmp('Eq', atom_term, TRUE)
                if is_const(atom_term):
                    return bool(atom_term[2]) == want
            else:
                raise Unsupported('condition is not boolean: %s' % show_term(atom_term))
        atom = atom_term[1]
        d = st.know.decide(atom)
        if d is None:
            raise Fork(atom)
        return d == want

    def arith(self, st, op, a, b, w, signed):
        """Add/Sub/Mul: returns (value_term, overflow_bool_term_or_None_if_exact)."""
        if signed and not (is_const(a) and is_const(b)):
            # only non-negative symbolic values of signed type are supported
            for t in (a, b):
                if not is_const(t):
                    bt = bits_of(t)
                    if bt[-1] != 0:
                        raise Unsupported('signed arithmetic on possibly negative symbolic value')
        if signed and is_const(a) and is_const(b):
            sa = a[2] - (1 << w) if a[2] >> (w - 1) else a[2]
            sb = b[2] - (1 << w) if b[2] >> (w - 1) else b[2]
            r = {'Add': sa + sb, 'Sub': sa - sb, 'Mul': sa * sb}[op]
            ov = not (-(1 << (w - 1)) <= r < (1 << (w - 1)))
            return K(w, r), (TRUE if ov else FALSE)
        ca, ta = lin_of(a)
        cb, tb = lin_of(b)
        if op == 'Add':
            c0 = ca + cb
            d = dict(ta)
            for l, c in tb.items():
                d[l] = d.get(l, 0) + c
        elif op == 'Sub':
            c0 = ca - cb
            d = dict(ta)
            for l, c in tb.items():
                d[l] = d.get(l, 0) - c
        else:
            if not tb:
                c0 = ca * cb
                d = {l: c * cb for l, c in ta.items()}
            elif not ta:
                c0 = ca * cb
                d = {l: c * ca for l, c in tb.items()}
            else:
                raise Unsupported('product of two symbolic values')
        hi_max = (1 << (w - 1)) - 1 if signed else mask(w)
        lo, hi = st.know.interval(c0, d)
        if lo >= 0 and hi <= hi_max:
            return mk_lin(w, c0, d), FALSE
        if hi < 0 or lo > hi_max:
            exact = ('lin', w + 8, c0, tuple(sorted(((l, c) for l, c in d.items() if c != 0), key=lambda x: repr(x[0])))) if d else None
            if exact is None:
                return K(w, c0), TRUE
            leaf = ('opq', w, 'wrap', exact)
            return mk_bv(w, tuple((leaf, i) for i in range(w))), TRUE
        # undecided: the overflow flag is an atom over the exact value
        exact_terms = tuple(sorted(((l, c) for l, c in d.items() if c != 0), key=lambda x: repr(x[0])))
        if op == 'Sub' or lo < 0:
            if hi > hi_max:
                raise Unsupported('arithmetic result may under- and overflow')
            # overflow iff value < 0  <=>  a < b  (for Sub) ; general: exact < 0
            pos = {l: c for l, c in d.items() if c > 0}
            negs = {l: -c for l, c in d.items() if c < 0}
            lhs = mk_lin(USIZE + 8, max(c0, 0), pos)
            rhs = mk_lin(USIZE + 8, max(-c0, 0), negs)
            ov = mk_cmp('Lt', lhs, rhs)
        else:
            pos = {l: c for l, c in d.items() if c > 0}
            negs = {l: -c for l, c in d.items() if c < 0}
            lhs = mk_lin(USIZE + 8, max(c0, 0), pos)
            rhs = mk_lin(USIZE + 8, max(-c0, 0) + hi_max, negs)
            ov = mk_cmp('Lt', rhs, lhs)
        return ('pending', w, c0, exact_terms), ov

    # ------------------------------------------------------------------ places / operands
    def resolve_place(self, st, fr, place):
        """-> target ((root), proj) or ('sliceplace', base_target, lo, hi)."""
        target = (('local', fr.fid, place['local']), ())
        variant = None
        for p in place['proj']:
            k = p['k']
            if target[0] == 'sliceplace':
                _, base, lo, hi = target
                if k == 'index':
                    idx = fr.locals[p['local']]
                    target = (base[0], base[1] + (('i', self.add(lo, idx)),))
                    continue
                if k == 'constant_index':
                    if p['from_end']:
                        target = (base[0], base[1] + (('i', self.sub(hi, K(USIZE, p['offset']))),))
                    else:
                        target = (base[0], base[1] + (('i', self.add(lo, K(USIZE, p['offset']))),))
                    continue
                if k == 'subslice':
                    nlo = self.add(lo, K(USIZE, p['from']))
                    nhi = self.sub(hi, K(USIZE, p['to'])) if p['from_end'] else self.add(lo, K(USIZE, p['to']))
                    target = ('sliceplace', base, nlo, nhi)
                    continue
                raise Unsupported('projection %s on unsized slice place' % k)
            if k == 'deref':
                v = self.read(st, target)
                if v[0] in ('ref', 'dynref'):
                    target = v[1]
                elif v[0] == 'slice':
                    target = ('sliceplace', v[1], v[2], v[3])
                else:
                    raise Unsupported('deref of %s' % (v[0],))
            elif k == 'field':
                target = (target[0], target[1] + (('f', p['i'], variant),))
                variant = None
            elif k == 'downcast':
                variant = p['variant']
            elif k == 'index':
                idx = fr.locals[p['local']]
                target = (target[0], target[1] + (('i', idx),))
            elif k == 'constant_index' and not p['from_end']:
                target = (target[0], target[1] + (('i', K(USIZE, p['offset'])),))
            elif k in ('constant_index', 'subslice'):
                v = self.read(st, target)
                if v[0] != 'array':
                    raise Unsupported('place projection %s on %s' % (k, v[0]))
                n_ = len(v[1])
                if k == 'constant_index':
                    target = (target[0], target[1] + (('i', K(USIZE, n_ - p['offset'])),))
                else:
                    nhi = n_ - p['to'] if p['from_end'] else p['to']
                    target = ('sliceplace', target, K(USIZE, p['from']), K(USIZE, nhi))
            else:
                raise Unsupported('place projection %s' % k)
        return target

    def read_place(self, st, fr, place):
        if not place['proj']:
            v = fr.locals.get(place['local'], UNINIT)
            return v
        t = self.resolve_place(st, fr, place)
        if t[0] == 'sliceplace':
            _, base, lo, hi = t
            lo, hi = self.conc(st, lo), self.conc(st, hi)
            if is_const(lo) and is_const(hi) and hi[2] - lo[2] <= 64:
                return ('array', tuple(self.read(st, (base[0], base[1] + (('i', K(USIZE, i)),))) for i in range(lo[2], hi[2])))
            raise Unsupported('read of unsized place')
        return self.read(st, t)

    def operand(self, st, fr, o):
        k = o['k']
        if k in ('copy', 'move'):
            v = self.read_place(st, fr, o['place'])
            if v is UNINIT or v == UNINIT:
                raise Unsupported('read of uninitialised local _%d in %s' % (o['place']['local'], fr.key))
            return v
        if k == 'const':
            return self.const(st, fr, o['c'])
        if k == 'runtime_checks':
            # library UB / contract precondition checks are not part of the analysed behaviour;
            # overflow checks follow the profile of the extraction
            if o['which'] == 'OverflowChecks':
                return TRUE if self.prog.meta.get('overflow_checks') else FALSE
            return FALSE
        raise Unsupported('operand %s %s' % (k, o.get('dbg', '')))

    def const(self, st, fr, c):
        k = c['k']
        if k == 'int':
            t = c['ty']
            if t['k'] in ('int', 'bool', 'char'):
                return K(ty_bits(t), int(c['v']))
            if t['k'] == 'adt':
                # a fieldless enum constant given as its scalar
                adt = self.prog.adt(t)
                if adt['kind'] == 'enum':
                    for vi, v in enumerate(adt['variants']):
                        if int(v['discr']) == int(c['v']) and not v['fields']:
                            return ('adt', t['id'], vi, ())
                if adt['kind'] == 'struct' and len(adt['variants'][0]['fields']) == 1:
                    f = adt['variants'][0]['fields'][0]
                    return ('adt', t['id'], 0, (self.const(st, fr, {'k': 'int', 'v': c['v'], 'ty': f['ty']}),))
            raise Unsupported('scalar constant of type %s' % t['k'])
        if k == 'fn':
            return ('fn', c['callee'])
        if k == 'zst':
            t = c['ty']
            if t['k'] == 'unit':
                return UNIT
            if t['k'] == 'adt':
                return ('adt', t['id'], 0, ())
            if t['k'] == 'fndef':
                return ('fn', None)
            if t['k'] == 'array':
                return ('array', ())
            return UNIT
        if k == 'str':
            return ('str', c['v'])
        if k == 'promoted':
            return self.promoted(st, fr, c['idx'])
        if k == 'agg':
            t = c['ty']
            fields = tuple(self.const(st, fr, f) for f in c['fields'])
            if t['k'] == 'array':
                return ('array', fields)
            if t['k'] == 'tuple':
                return ('tuple', fields)
            if t['k'] == 'unit':
                return UNIT
            if t['k'] == 'adt':
                return ('adt', t['id'], c['variant'] or 0, fields)
            raise Unsupported('aggregate constant of type %s' % t['k'])
        if k == 'ref':
            # a named constant used by reference (`&TABLE`): its value lives in a permanent slot
            val = self.const(st, fr, c['to'])
            pf = Frame()
            pf.fid = st.next_fid
            st.next_fid += 1
            pf.key = fr.key + '::const-ref'
            pf.inst = fr.inst
            pf.body = fr.body
            pf.locals = {0: val}
            pf.bb = 0
            pf.si = 0
            pf.dest = None
            pf.ret_bb = None
            pf.call_span = None
            st.perm[pf.fid] = pf
            target = (('local', pf.fid, 0), ())
            if c.get('slice'):
                if val[0] != 'array':
                    raise Unsupported('slice constant of %s' % val[0])
                return ('slice', target, K(USIZE, 0), K(USIZE, len(val[1])))
            return ('ref', target)
        raise Unsupported('constant %s' % c.get('dbg', k))

    def promoted(self, st, fr, idx):
        body = fr.inst['promoted'][idx]
        pf = Frame()
        pf.fid = st.next_fid
        st.next_fid += 1
        pf.key = fr.key + '::promoted[%d]' % idx
        pf.inst = fr.inst
        pf.body = body
        pf.locals = {}
        pf.bb = 0
        pf.si = 0
        pf.dest = None
        pf.ret_bb = None
        pf.call_span = None
        st.perm[pf.fid] = pf
        bb = 0
        for _ in range(64):
            blk = body['blocks'][bb]
            for s in blk['stmts']:
                if s['k'] != 'assign':
                    raise Unsupported('statement in promoted body')
                v = self.rvalue(st, pf, s['rv'])
                self.assign(st, pf, s['place'], v)
            t = blk['term']
            if t['k'] == 'return':
                return pf.locals[0]
            if t['k'] == 'goto':
                bb = t['target']
                continue
            if t['k'] == 'call' and t['target'] is not None:
                callee = t['callee']
                args = [self.operand(st, pf, a) for a in t['args']]
                handled, val = self.call_model(st, pf, callee['path'], callee, args, t)
                if not handled:
                    if not callee['has_mir'] or callee['key'] is None:
                        raise Unsupported('call to %s in promoted body' % callee['path'])
                    val = self.call_sync(st, callee['key'], args)
                self.assign(st, pf, t['dest'], val)
                bb = t['target']
                continue
            raise Unsupported('terminator %s in promoted body' % t['k'])
        raise Unsupported('promoted body too long')

    def assign(self, st, fr, place, v):
        if v[0] == 'pending':
            raise Unsupported('internal: pending value stored')
        if not place['proj']:
            fr.locals[place['local']] = v
            return
        t = self.resolve_place(st, fr, place)
        if t[0] == 'sliceplace':
            _, base, lo, hi = t
            lo, hi = self.conc(st, lo), self.conc(st, hi)
            if v[0] == 'array' and is_const(lo) and is_const(hi) and hi[2] - lo[2] == len(v[1]):
                for i, c in enumerate(v[1]):
                    self.write(st, (base[0], base[1] + (('i', K(USIZE, lo[2] + i)),)), c)
                return
            raise Unsupported('assignment to unsized place')
        self.write(st, t, v)

    # ------------------------------------------------------------------ rvalues
    def rvalue(self, st, fr, r):
        k = r['k']
        if k == 'use':
            return self.operand(st, fr, r['op'])
        if k == 'repeat':
            v = self.operand(st, fr, r['op'])
            return ('array', (v,) * r['count'])
        if k == 'ref' or k == 'rawptr':
            pl = r['place']
            if len(pl['proj']) == 1 and pl['proj'][0]['k'] == 'deref':
                v0 = fr.locals.get(pl['local'], UNINIT)
                if v0[0] in ('str', 'fmtargs', 'dynref'):
                    return v0       # reborrow of a string constant / trait object: the reference itself
            t = self.resolve_place(st, fr, r['place'])
            if t[0] == 'sliceplace':
                return ('slice', t[1], t[2], t[3])
            return ('ref', t)
        if k == 'copy_for_deref':
            return self.read_place(st, fr, r['place'])
        if k == 'cast':
            return self.cast(st, fr, r)
        if k == 'binop':
            return self.binop(st, fr, r)
        if k == 'unop':
            a = self.operand(st, fr, r['a'])
            if r['op'] == 'PtrMetadata':
                if a[0] == 'slice':
                    return self.sub(a[3], a[2])
                raise Unsupported('PtrMetadata of %s' % a[0])
            if r['op'] == 'Not':
                return t_not(a)
            if r['op'] == 'Neg':
                if is_const(a):
                    return K(a[1], -a[2])
            raise Unsupported('unary %s on symbolic' % r['op'])
        if k == 'discriminant':
            v = self.read_place(st, fr, r['place'])
            w = ty_bits(r['ty'])
            if v[0] == 'lazy':
                v = self.materialise(st, v)
            if v[0] == 'adt':
                adt = self.prog.adts[v[1]]
                return K(w, int(adt['variants'][v[2]]['discr']))
            if v[0] == 'symenum':
                t = v[2]
                if width(t) == w:
                    return t
                return cast_bits(t, w, False)
            if v[0] == 'uninit':
                # MIR reads discriminants of never-initialised residual locals in dead code
                leaf = ('opq', w, 'uninit', (fr.key, r['place']['local']))
                return mk_bv(w, tuple((leaf, i) for i in range(w)))
            raise Unsupported('discriminant of %s' % v[0])
        if k == 'aggregate':
            ops = tuple(self.operand(st, fr, o) for o in r['ops'])
            ak = r['ak']
            if ak['k'] == 'array':
                return ('array', ops)
            if ak['k'] == 'tuple':
                return ('tuple', ops) if ops else UNIT
            if ak['k'] == 'adt':
                tid = r['ty']['id']
                if ak['path'] == 'core::ops::RangeInclusive':
                    return ('model', 'rangeincl') + ops
                return ('adt', tid, ak['variant'], ops)
            if ak['k'] == 'closure':
                return ('closure', ak['path'], ops, ak.get('key'))
            raise Unsupported('aggregate %s' % ak['k'])
        raise Unsupported('rvalue %s %s' % (k, r.get('dbg', '')))

    def cast(self, st, fr, r):
        ck = r['ck']
        v = self.operand(st, fr, r['op'])
        if ck == 'IntToInt':
            src, dst = r['src_ty'], r['to']
            if v[0] == 'symenum':
                v = v[2]
            elif v[0] == 'adt':
                adt = self.prog.adts[v[1]]
                v = K(adt['discr_ty']['bits'], int(adt['variants'][v[2]]['discr']))
            w1 = width(v)
            w2 = ty_bits(dst)
            s1 = ty_signed(src)
            if is_const(v):
                n = v[2]
                if s1 and (n >> (w1 - 1)):
                    n -= 1 << w1
                return K(w2, n)
            if v[0] == 'atom':
                return cast_bits(v, w2, False)
            if v[0] == 'lin':
                lo, hi = st.know.interval(v[2], dict(v[3]))
                if lo >= 0 and hi <= mask(w2) and not (s1 and hi >> (w1 - 1)):
                    return mk_lin(w2, v[2], dict(v[3]))
                if w2 >= w1 and not s1:
                    return mk_lin(w2, v[2], dict(v[3]))
                leaf = ('opq', w2, 'trunc', v)
                return mk_bv(w2, tuple((leaf, i) for i in range(w2)))
            return cast_bits(v, w2, s1)
        if ck.startswith('PointerCoercion(Unsize'):
            to = r['to']
            src = r['src_ty']
            if v[0] == 'ref' and src['k'] in ('ref', 'ptr') and src['to']['k'] == 'array':
                return ('slice', v[1], K(USIZE, 0), K(USIZE, src['to']['len']))
            if v[0] in ('slice', 'dynref'):
                return v
            if v[0] == 'ref':
                return ('dynref', v[1])
            raise Unsupported('unsize of %s' % v[0])
        if ck.startswith('PointerCoercion(ReifyFnPointer') and v[0] == 'fn' and v[1]:
            return v            # a function item used as a function pointer: the pointer names the function
        if ck in ('PtrToPtr', 'Transmute') or ck.startswith('PointerCoercion'):
            raise Unsupported('cast %s' % ck)
        raise Unsupported('cast %s' % ck)

    def binop(self, st, fr, r):
        op = r['op']
        a = self.operand(st, fr, r['a'])
        b = self.operand(st, fr, r['b'])
        at = r['a_ty']
        if a[0] == 'symenum':
            a = a[2]
        if b[0] == 'symenum':
            b = b[2]
        if op in ('Eq', 'Ne', 'Lt', 'Le', 'Gt', 'Ge'):
            if at['k'] not in ('int', 'bool', 'char'):
                raise Unsupported('comparison of %s' % at['k'])
            if ty_signed(at) and op not in ('Eq', 'Ne') and is_const(a) and is_const(b):
                sa_ = a[2] - (1 << a[1]) if a[2] >> (a[1] - 1) else a[2]
                sb_ = b[2] - (1 << b[1]) if b[2] >> (b[1] - 1) else b[2]
                return TRUE if {'Lt': sa_ < sb_, 'Le': sa_ <= sb_, 'Gt': sa_ > sb_, 'Ge': sa_ >= sb_}[op] else FALSE
            if ty_signed(at) and op not in ('Eq', 'Ne'):
                for t in (a, b):
                    if is_const(t):
                        if t[2] >> (t[1] - 1):
                            raise Unsupported('signed comparison with negative constant')
                    elif bits_of(t)[-1] != 0:
                        raise Unsupported('signed comparison of possibly negative symbolic value')
            return mk_cmp(op, a, b)
        w = ty_bits(at)
        signed = ty_signed(at)
        if op in ('BitAnd', 'BitOr', 'BitXor'):
            if op == 'BitAnd':
                for x, m_ in ((a, b), (b, a)):
                    if is_const(m_) and x[0] == 'lin' and m_[2] & (m_[2] + 1) == 0:
                        lo, hi = st.know.interval(x[2], dict(x[3]))
                        if lo >= 0 and hi <= m_[2]:
                            return x
            return bitop(op, a, b)
        if op in ('Shl', 'Shr', 'ShlUnchecked', 'ShrUnchecked'):
            if not is_const(b):
                # a symbolic shift amount with a small range: enumerate it
                cb_, tb_ = lin_of(b)
                lo_, hi_ = st.know.interval(cb_, tb_)
                if lo_ < 0 or hi_ - lo_ > 64:
                    raise Unsupported('shift by symbolic amount %s' % show_term(b))
                for v_ in range(lo_, hi_ + 1):
                    if self.need(st, mk_cmp('Eq', b, K(width(b), v_))):
                        b = K(width(b), v_)
                        break
                else:
                    raise Infeasible()
            n = b[2] & (w - 1)
            if op.startswith('Shl'):
                if a[0] == 'lin' and not signed:
                    lo_, hi_ = st.know.interval(a[2], dict(a[3]))
                    if lo_ >= 0 and (hi_ << n) <= mask(w):
                        return mk_lin(w, a[2] << n, {l: c << n for l, c in a[3]})     # a shift used as a multiplication
                return shl(a, n)
            return shr(a, n, signed)
        if op in ('Div', 'Rem'):
            if is_const(a) and is_const(b) and b[2] != 0 and not signed:
                return K(w, a[2] // b[2] if op == 'Div' else a[2] % b[2])
            if is_const(b) and b[2] != 0 and not signed and b[2] & (b[2] - 1) == 0 and a[0] in ('bv', 'lin'):
                sh_ = b[2].bit_length() - 1       # unsigned division / remainder by 2^k: a shift / a mask
                if a[0] == 'lin':
                    lo, hi = st.know.interval(a[2], dict(a[3]))
                    if lo >= 0 and hi < b[2]:
                        return a if op == 'Rem' else K(w, 0)
                    if op == 'Rem' and sh_ < w:
                        # the low k bits of a linear value: the same opaque truncation a narrowing cast produces
                        leaf = ('opq', sh_, 'trunc', a)
                        return mk_bv(w, tuple((leaf, i) for i in range(sh_)) + (0,) * (w - sh_))
                if op == 'Div':
                    return shr(a, sh_, False)
                bits_ = bits_of(a)
                return mk_bv(w, tuple(bits_[:sh_]) + (0,) * (w - sh_))
            if is_const(b) and b[2] != 0 and not signed and a[0] in ('lin', 'bv'):
                d_ = b[2]
                c0, ts = lin_of(a)
                if all(c % d_ == 0 for c in ts.values()):
                    if op == 'Rem':
                        return K(w, c0 % d_)
                    if c0 % d_ == 0:
                        return mk_lin(w, c0 // d_, {l: c // d_ for l, c in ts.items()})
                lo, hi = st.know.interval(c0, ts)
                if 0 <= lo and hi - lo <= 64:
                    for v in range(lo, hi + 1):
                        if self.need(st, mk_cmp('Eq', a, K(w, v))):
                            return K(w, v // d_ if op == 'Div' else v % d_)
                    raise Infeasible()
            raise Unsupported('%s on symbolic operands' % op)
        base = op.replace('WithOverflow', '').replace('Unchecked', '')
        if base in ('Add', 'Sub', 'Mul'):
            val, ov = self.arith(st, base, a, b, w, signed)
            if val[0] == 'pending':
                # fork on the overflow condition, then recompute with the fact recorded
                self.need(st, ov)
                raise Unsupported('internal: overflow condition not decided after fork')
            if op.endswith('WithOverflow'):
                return ('tuple', (val, ov))
            return val
        if op == 'Cmp':
            if at['k'] not in ('int', 'bool', 'char'):
                raise Unsupported('three-way comparison of %s' % at['k'])
            if ty_signed(at):
                for t in (a, b):
                    if is_const(t):
                        if t[2] >> (t[1] - 1):
                            raise Unsupported('signed comparison with negative constant')
                    elif bits_of(t)[-1] != 0:
                        raise Unsupported('signed comparison of possibly negative symbolic value')
            oid = [i for i, d_ in self.prog.adts.items() if d_['path'] == 'core::cmp::Ordering']
            if len(oid) != 1:
                raise Unsupported('three-way comparison: core::cmp::Ordering not in the fact file')
            if self.need(st, mk_cmp('Lt', a, b)):
                return ('adt', oid[0], 0, ())
            if self.need(st, mk_cmp('Eq', a, b)):
                return ('adt', oid[0], 1, ())
            return ('adt', oid[0], 2, ())
        raise Unsupported('binop %s' % op)

    # ------------------------------------------------------------------ calls and models
    def describe_target(self, st, target):
        s = self._describe_target(st, target)
        if self.rename:
            head, sep, tail = s.partition('[')
            parts = tuple(head.split('.'))
            best = None
            for a_, c_ in self.rename:
                if parts[:len(a_)] == a_ and (best is None or len(a_) > len(best[0])):
                    best = (a_, c_)
            if best:
                s = '.'.join(best[1] + parts[len(best[0]):]) + sep + tail
        return s

    def _describe_target(self, st, target):
        root, proj = target
        s = root[1] if root[0] == 'heap' else '_%d' % root[2]
        v = None
        try:
            v = st.heap[root[1]] if root[0] == 'heap' else st.frame(root[1]).locals.get(root[2])
        except Exception:
            pass
        for p in proj:
            if p[0] == 'f':
                name = str(p[1])
                if v is not None and v[0] == 'adt':
                    name = self.prog.field_name(v[1], v[2], p[1])
                    v = v[3][p[1]]
                elif v is not None and v[0] == 'tuple':
                    v = v[1][p[1]]
                else:
                    v = None
                s += '.' + name
            elif p[0] == 'i':
                s += '[%s]' % show_term(p[1])
                v = None
        return s

    def slice_len(self, s):
        return self.sub(s[3], s[2])

    def call_model(self, st, fr, path, callee, args, term):
        """Return (handled, value). Raises Panic for modelled panics."""
        P = path
        # --- slice indexing by ranges
        m = re.match(r'^<core::ops::(Range|RangeFrom|RangeFull|RangeTo|RangeInclusive|RangeToInclusive)(?:<usize>)? as core::slice::SliceIndex<\[T\]>>::(index|index_mut|get|get_mut)$', P)
        if m:
            kind, meth = m.group(1), m.group(2)
            checked = meth in ('get', 'get_mut')
            rng, sl = args
            if sl[0] != 'slice':
                raise Unsupported('SliceIndex on %s' % sl[0])
            ln = self.slice_len(sl)
            zero = K(USIZE, 0)
            if kind == 'Range':
                start, end = rng[3]
            elif kind == 'RangeFrom':
                start, end = rng[3][0], ln
            elif kind == 'RangeTo':
                start, end = zero, rng[3][0]
            elif kind == 'RangeFull':
                start, end = zero, ln
            elif kind == 'RangeInclusive':
                if rng[0] != 'model':
                    raise Unsupported('RangeInclusive value')
                start = rng[2]
                end = self.add(rng[3], K(USIZE, 1))
            else:
                start, end = zero, self.add(rng[3][0], K(USIZE, 1))
            ret_ty = self.prog.instances[callee['key']]['sig']['output'] if checked else None
            if not self.need(st, mk_cmp('Le', start, end)):
                if checked:
                    return True, ('adt', ret_ty['id'], 0, ())
                raise Panic('slice_index', 'slice index starts at %s but ends at %s' % (show_term(start), show_term(end)))
            if not self.need(st, mk_cmp('Le', end, ln)):
                if checked:
                    return True, ('adt', ret_ty['id'], 0, ())
                raise Panic('slice_index', 'range end index %s out of range for slice of length %s' % (show_term(end), show_term(ln)))
            res = ('slice', sl[1], self.add(sl[2], start), self.add(sl[2], end))
            if checked:
                return True, ('adt', ret_ty['id'], 1, (res,))
            return True, res
        m = re.match(r'^<usize as core::slice::SliceIndex<\[T\]>>::(get|get_mut|index|index_mut)$', P)
        if m:
            meth = m.group(1)
            idx, sl = args
            if sl[0] != 'slice':
                raise Unsupported('SliceIndex<usize> on %s' % sl[0])
            inb = self.need(st, mk_cmp('Lt', idx, self.slice_len(sl)))
            eref = ('ref', (sl[1][0], sl[1][1] + (('i', self.add(sl[2], idx)),)))
            if meth in ('get', 'get_mut'):
                ret_ty = self.prog.instances[callee['key']]['sig']['output']
                return True, (('adt', ret_ty['id'], 1, (eref,)) if inb else ('adt', ret_ty['id'], 0, ()))
            if not inb:
                raise Panic('index', 'index out of bounds: the len is %s but the index is %s' % (show_term(self.slice_len(sl)), show_term(idx)))
            return True, eref
        if P == 'core::slice::<impl [T]>::clone_from_slice':
            dst, src = args
            self.copy_from_slice(st, dst, src)      # element types analysed here are Copy: clone == copy
            return True, UNIT
        if P == 'core::array::from_fn':
            ret_ty = self.prog.instances[callee['key']]['sig']['output']
            n_ = ret_ty.get('len')
            if ret_ty['k'] != 'array' or n_ is None or n_ > 300:
                raise Unsupported('array::from_fn of unknown size')
            ckey = self.closure_key_of_deep(callee)
            slot = Frame()
            slot.fid = st.next_fid
            st.next_fid += 1
            slot.key = callee['key']
            slot.inst = self.prog.instances[callee['key']]
            slot.body = slot.inst['body']
            slot.locals = {0: args[0]}
            slot.bb = 0
            slot.si = 0
            slot.dest = None
            slot.ret_bb = None
            slot.call_span = None
            st.perm[slot.fid] = slot
            fref = ('ref', (('local', slot.fid, 0), ()))
            return True, ('array', tuple(self.call_sync(st, ckey, [fref, ('tuple', (K(USIZE, i),))]) for i in range(n_)))
        if P == 'core::mem::replace':
            old_ = self.read(st, args[0][1])
            self.write(st, args[0][1], args[1])
            return True, old_
        if P == 'core::mem::swap':
            a_, b_ = self.read(st, args[0][1]), self.read(st, args[1][1])
            self.write(st, args[0][1], b_)
            self.write(st, args[1][1], a_)
            return True, UNIT
        if P == 'core::iter::Iterator::rev' and args[0][0] == 'model' and args[0][1] == 'iter':
            return True, ('model', 'rev', args[0])
        if P == '<core::iter::Rev<I> as core::iter::Iterator>::next':
            it = self.read(st, args[0][1])
            if it[0] == 'model' and it[1] == 'rev':
                ret_ty = self.prog.instances[callee['key']]['sig']['output']
                newit, item = self.model_next(st, it)
                if item is None:
                    return True, ('adt', ret_ty['id'], 0, ())
                self.write(st, args[0][1], newit)
                return True, ('adt', ret_ty['id'], 1, (item,))
        if P == 'core::slice::<impl [T]>::copy_from_slice':
            dst, src = args
            self.copy_from_slice(st, dst, src)
            return True, UNIT
        if P in ('core::slice::<impl [T]>::iter', 'core::slice::<impl [T]>::iter_mut'):
            return True, ('model', 'iter', args[0], K(USIZE, 0))
        if re.match(r"^core::slice::iter::<impl core::iter::IntoIterator for &'a (mut )?\[T\]>::into_iter$", P):
            return True, ('model', 'iter', args[0], K(USIZE, 0))
        if re.match(r"^core::array::<impl core::iter::IntoIterator for &'a (mut )?\[T; N\]>::into_iter$", P):
            return True, ('model', 'iter', self.as_slice(st, args[0], callee), K(USIZE, 0))
        if P in ("<core::slice::Iter<'a, T> as core::iter::Iterator>::next", "<core::slice::IterMut<'a, T> as core::iter::Iterator>::next"):
            ref = args[0]
            it = self.read(st, ref[1])
            ret_ty = self.prog.instances[callee['key']]['sig']['output']
            newit, item = self.model_next(st, it)
            if item is None:
                return True, ('adt', ret_ty['id'], 0, ())
            self.write(st, ref[1], newit)
            return True, ('adt', ret_ty['id'], 1, (item,))
        if P.endswith('<impl core::iter::IntoIterator for [T; N]>::into_iter'):
            if args[0][0] != 'array':
                raise Unsupported('into_iter of %s' % args[0][0])
            return True, ('model', 'arrayiter', args[0], K(USIZE, 0))
        if P == '<core::array::IntoIter<T, N> as core::iter::Iterator>::next':
            ref = args[0]
            it = self.read(st, ref[1])
            ret_ty = self.prog.instances[callee['key']]['sig']['output']
            newit, item = self.model_next(st, it)
            if item is None:
                return True, ('adt', ret_ty['id'], 0, ())
            self.write(st, ref[1], newit)
            return True, ('adt', ret_ty['id'], 1, (item,))
        m = re.match(r"^<core::slice::Iter(?:Mut)?<'a, T> as core::iter::Iterator>::(fold|all|any|position|find|for_each)$", P)
        if m:
            try:
                return True, self.iter_closure_method(st, m.group(1), callee, args)
            except NotAClosure:
                if not callee.get('default_key'):
                    raise
                return False, None      # a fn item or another callable: the trait's default body over next()
        if P in ('core::slice::<impl [T]>::chunks_exact', 'core::slice::<impl [T]>::chunks_exact_mut',
                 'core::slice::<impl [T]>::chunks', 'core::slice::<impl [T]>::chunks_mut'):
            sl, size = args
            if sl[0] != 'slice' or not is_const(size) or size[2] == 0:
                raise Unsupported('chunks with a symbolic or zero size')
            return True, ('model', 'chunks', sl, size, K(USIZE, 0), P.split('::')[-1].startswith('chunks_exact'))
        if re.match(r"^<core::slice::Chunks(Exact)?(Mut)?<'a, T> as core::iter::Iterator>::next$", P):
            ref = args[0]
            it = self.read(st, ref[1])
            ret_ty = self.prog.instances[callee['key']]['sig']['output']
            newit, item = self.model_next(st, it)
            if item is None:
                return True, ('adt', ret_ty['id'], 0, ())
            self.write(st, ref[1], newit)
            return True, ('adt', ret_ty['id'], 1, (item,))
        if re.match(r"^<core::slice::Iter(Mut)?<'a, T> as core::iter::DoubleEndedIterator>::next_back$", P):
            ref = args[0]
            it = self.read(st, ref[1])
            if it[0] != 'model' or it[1] != 'iter':
                raise Unsupported('next_back on %s' % (it[0],))
            ret_ty = self.prog.instances[callee['key']]['sig']['output']
            sl, pos = it[2], it[3]
            ln = self.slice_len(sl)
            cond = mk_cmp('Lt', pos, ln)
            if not is_const(cond):
                c0, t0 = lin_of(ln)
                lo, hi = st.know.interval(c0, t0)
                if hi - lo > 64:
                    raise Unsupported('reverse loop over a slice whose symbolic length is not bounded')
                for v in range(lo, hi + 1):
                    if self.need(st, mk_cmp('Eq', ln, K(USIZE, v))):
                        break
                cond = mk_cmp('Lt', pos, self.conc(st, ln))
            if self.need(st, cond):
                last = self.conc(st, self.sub(sl[3], K(USIZE, 1)))
                eref = ('ref', (sl[1][0], sl[1][1] + (('i', last),)))
                self.write(st, ref[1], ('model', 'iter', ('slice', sl[1], sl[2], last), pos))
                return True, ('adt', ret_ty['id'], 1, (eref,))
            return True, ('adt', ret_ty['id'], 0, ())
        m = re.match(r"^<core::(?:slice::Iter(?:Mut)?<'a, T>|iter::Copied<I>|iter::Cloned<I>|iter::Rev<I>) as core::iter::(?:Iterator|ExactSizeIterator)>::(size_hint|len|count)$", P)
        if m:
            it = args[0] if args[0][0] == 'model' else self.read(st, args[0][1])
            while it[0] == 'model' and it[1] in ('copied', 'rev'):
                it = it[2]
            if it[0] != 'model' or it[1] != 'iter':
                raise Unsupported('%s on %s' % (m.group(1), it[0]))
            rem = self.sub(self.slice_len(it[2]), it[3])
            if m.group(1) == 'size_hint':
                ret_ty = self.prog.instances[callee['key']]['sig']['output']
                return True, ('tuple', (rem, ('adt', ret_ty['elems'][1]['id'], 1, (rem,))))
            return True, rem
        if P in ('core::iter::Iterator::copied', 'core::iter::Iterator::cloned') and args[0][0] == 'model' \
                and args[0][1] in ('iter', 'rev'):
            return True, ('model', 'copied', args[0])
        if re.match(r'^<core::iter::\w+<.*> as core::iter::Iterator>::next$', P) and args and args[0][0] == 'ref' and self.peek_is_model(st, args[0]):
            # an adapter whose modelled form is itself a modelled iterator (take/skip/copied/rev/step_by/zip over slices)
            ref = args[0]
            it = self.read(st, ref[1])
            ret_ty = self.prog.instances[callee['key']]['sig']['output']
            newit, item = self.model_next(st, it)
            if item is None:
                return True, ('adt', ret_ty['id'], 0, ())
            self.write(st, ref[1], newit)
            return True, ('adt', ret_ty['id'], 1, (item,))
        if P in ('<core::iter::Copied<I> as core::iter::Iterator>::next', '<core::iter::Cloned<I> as core::iter::Iterator>::next'):
            ref = args[0]
            it = self.read(st, ref[1])
            if it[0] != 'model':
                return False, None
            ret_ty = self.prog.instances[callee['key']]['sig']['output']
            newit, item = self.model_next(st, it)
            if item is None:
                return True, ('adt', ret_ty['id'], 0, ())
            self.write(st, ref[1], newit)
            return True, ('adt', ret_ty['id'], 1, (item,))
        m = re.match(r"^(?:<.*> as core::iter::Iterator>|core::iter::Iterator)::(fold|all|any|position|find|for_each)$", P)
        if m and args and (args[0][0] == 'model' or (args[0][0] == 'ref' and self.peek_is_model(st, args[0]))):
            fv_ = args[2] if m.group(1) == 'fold' else args[1]
            if fv_[0] == 'closure' or not callee.get('default_key'):
                try:
                    return True, self.iter_closure_method(st, m.group(1), callee, args)
                except NotAClosure:
                    if not callee.get('default_key'):
                        raise
            return False, None      # the callable is not a closure value: interpret the trait's default body (over next())
        if P == 'core::iter::Iterator::zip':
            a, b = args
            try:
                return True, ('model', 'zip', self.as_iter(st, a, None), self.as_iter(st, b, callee))
            except Unsupported:
                return False, None      # a side is an iterator the models do not know: interpret core's generic Zip
        if P == '<core::iter::Zip<A, B> as core::iter::Iterator>::next':
            ref = args[0]
            it = self.read(st, ref[1])
            if it[0] != 'model':
                return False, None
            ret_ty = self.prog.instances[callee['key']]['sig']['output']
            newit, item = self.model_next(st, it)
            if item is None:
                return True, ('adt', ret_ty['id'], 0, ())
            self.write(st, ref[1], newit)
            return True, ('adt', ret_ty['id'], 1, (item,))
        if P in ('core::slice::from_ref', 'core::slice::from_mut', 'core::slice::raw::from_ref', 'core::slice::raw::from_mut',
                 'core::array::from_ref', 'core::array::from_mut'):
            r = args[0]
            if r[0] != 'ref':
                raise Unsupported('from_ref of %s' % r[0])
            return True, ('slice', r[1], K(USIZE, 0), K(USIZE, 1))
        if P == 'core::slice::<impl [T]>::fill':
            self.fill(st, args[0], args[1])
            return True, UNIT
        m = re.match(r'^core::slice::<impl \[T\]>::(first_chunk|last_chunk|split_first_chunk|split_last_chunk|as_array)(_mut)?$|^core::slice::<impl \[T\]>::(as_mut_array)$', P)
        if m and args and args[0][0] == 'slice':
            # a reference to an array inside a slice is represented as the slice value of that window
            which = m.group(1) or 'as_array'
            mk = re.search(r'::<(\d+)>$', callee.get('key') or '')
            if not mk:
                raise Unsupported('%s without a constant length' % which)
            n_ = K(USIZE, int(mk.group(1)))
            sl = args[0]
            ln = self.slice_len(sl)
            ret_ty = self.prog.instances[callee['key']]['sig']['output']
            fits = mk_cmp('Eq', n_, ln) if which == 'as_array' else mk_cmp('Le', n_, ln)
            if not self.need(st, fits):
                return True, ('adt', ret_ty['id'], 0, ())
            lo, hi = sl[2], sl[3]
            if which in ('first_chunk', 'as_array'):
                val = ('slice', sl[1], lo, self.add(lo, n_))
            elif which == 'last_chunk':
                val = ('slice', sl[1], self.sub(hi, n_), hi)
            elif which == 'split_first_chunk':
                mid = self.add(lo, n_)
                val = ('tuple', (('slice', sl[1], lo, mid), ('slice', sl[1], mid, hi)))
            else:
                mid = self.sub(hi, n_)
                val = ('tuple', (('slice', sl[1], lo, mid), ('slice', sl[1], mid, hi)))
            return True, ('adt', ret_ty['id'], 1, (val,))
        m = re.match(r"^core::array::<impl core::convert::TryFrom<&'a (mut )?\[T\]> for &'a (mut )?\[T; N\]>::try_from$|^core::array::<impl core::convert::TryFrom<&(mut )?\[T\]> for \[T; N\]>::try_from$", P)
        if m and args and args[0][0] == 'slice':
            by_value = P.endswith('for [T; N]>::try_from')
            mk = re.search(r'; (\d+)\]>::try_from$', callee.get('key') or '')
            if not mk:
                raise Unsupported('array try_from without a constant length')
            n_ = K(USIZE, int(mk.group(1)))
            sl = args[0]
            ret_ty = self.prog.instances[callee['key']]['sig']['output']
            if not self.need(st, mk_cmp('Eq', n_, self.slice_len(sl))):
                err_ty = self.prog.adts[ret_ty['id']]['variants'][1]['fields'][0]['ty']
                return True, ('adt', ret_ty['id'], 1, (('adt', err_ty['id'], 0, (UNIT,)),))
            if by_value:
                lo = self.conc(st, sl[2])
                val = ('array', tuple(self.read_elem(st, sl[1], self.add(lo, K(USIZE, i))) for i in range(n_[2])))
            else:
                val = ('slice', sl[1], sl[2], self.add(sl[2], n_))
            return True, ('adt', ret_ty['id'], 0, (val,))
        if P == 'core::slice::<impl [T]>::swap' and args[0][0] == 'slice':
            sl, i_, j_ = args
            ln = self.slice_len(sl)
            for x in (i_, j_):
                if not self.need(st, mk_cmp('Lt', x, ln)):
                    raise Panic('index', 'index out of bounds: the len is %s but the index is %s' % (show_term(ln), show_term(x)))
            ti = (sl[1][0], sl[1][1] + (('i', self.add(sl[2], i_)),))
            tj = (sl[1][0], sl[1][1] + (('i', self.add(sl[2], j_)),))
            vi, vj = self.read(st, ti), self.read(st, tj)
            self.write(st, ti, vj)
            self.write(st, tj, vi)
            return True, UNIT
        if P == 'core::slice::<impl [T]>::copy_within' and args[0][0] == 'slice':
            sl, rng, dest = args
            if rng[0] != 'adt' or len(rng[3]) != 2 or self.prog.adts[rng[1]]['path'] != 'core::ops::Range':
                raise Unsupported('copy_within with a range that is not start..end')
            a_, b_ = self.conc(st, rng[3][0]), self.conc(st, rng[3][1])
            dest = self.conc(st, dest)
            ln = self.slice_len(sl)
            if not self.need(st, mk_cmp('Le', a_, b_)):
                raise Panic('slice_index', 'slice index starts at %s but ends at %s' % (show_term(a_), show_term(b_)))
            if not self.need(st, mk_cmp('Le', b_, ln)):
                raise Panic('slice_index', 'range end index %s out of range for slice of length %s' % (show_term(b_), show_term(ln)))
            cnt = self.sub(b_, a_)
            if not self.need(st, mk_cmp('Le', self.add(dest, cnt), ln)):
                raise Panic('copy_within', 'dest is out of bounds')
            if not (is_const(a_) and is_const(b_) and is_const(dest)) or cnt[2] > 64:
                raise Unsupported('copy_within with symbolic bounds')
            vals = [self.read_elem(st, sl[1], self.add(sl[2], K(USIZE, a_[2] + i))) for i in range(cnt[2])]
            for i, v_ in enumerate(vals):
                self.write(st, (sl[1][0], sl[1][1] + (('i', self.add(sl[2], K(USIZE, dest[2] + i))),)), v_)
            return True, UNIT
        if P == 'core::slice::<impl [T]>::windows' and args[0][0] == 'slice':
            sl, size = args
            if not is_const(size):
                raise Unsupported('windows with a symbolic size')
            if size[2] == 0:
                raise Panic('windows', 'window size must be non-zero')
            return True, ('model', 'windows', sl, size, K(USIZE, 0))
        if P == "<core::slice::Windows<'a, T> as core::iter::Iterator>::next":
            ref = args[0]
            it = self.read(st, ref[1])
            ret_ty = self.prog.instances[callee['key']]['sig']['output']
            newit, item = self.model_next(st, it)
            if item is None:
                return True, ('adt', ret_ty['id'], 0, ())
            self.write(st, ref[1], newit)
            return True, ('adt', ret_ty['id'], 1, (item,))
        if P in ('core::slice::<impl [T]>::split_at_checked', 'core::slice::<impl [T]>::split_at_mut_checked',
                 'core::slice::<impl [T]>::split_at_unchecked', 'core::slice::<impl [T]>::split_at_mut_unchecked') and args[0][0] == 'slice':
            sl, mid = args
            ln = self.slice_len(sl)
            pair = ('tuple', (('slice', sl[1], sl[2], self.add(sl[2], mid)), ('slice', sl[1], self.add(sl[2], mid), sl[3])))
            if P.endswith('_unchecked'):
                return True, pair
            ret_ty = self.prog.instances[callee['key']]['sig']['output']
            if self.need(st, mk_cmp('Le', mid, ln)):
                return True, ('adt', ret_ty['id'], 1, (pair,))
            return True, ('adt', ret_ty['id'], 0, ())
        if P in ('core::slice::<impl [T]>::split_at', 'core::slice::<impl [T]>::split_at_mut'):
            sl, mid = args
            if sl[0] != 'slice':
                raise Unsupported('split_at on %s' % sl[0])
            if not self.need(st, mk_cmp('Le', mid, self.slice_len(sl))):
                raise Panic('split_at', 'mid > len')
            m = self.add(sl[2], mid)
            return True, ('tuple', (('slice', sl[1], sl[2], m), ('slice', sl[1], m, sl[3])))
        m = re.match(r'^core::num::<impl (u8|u16|u32|u64|usize|u128)>::(from|to)_(be|le|ne)_bytes$', P)
        if m:
            ty_, dirn, end = m.groups()
            w = {'u8': 8, 'u16': 16, 'u32': 32, 'u64': 64, 'usize': USIZE, 'u128': 128}[ty_]
            if end == 'ne':
                end = 'le'     # the analysed target (x86_64) is little endian
            nb = w // 8
            if dirn == 'from':
                arr = args[0]
                if arr[0] != 'array' or len(arr[1]) != nb:
                    raise Unsupported('from_bytes argument')
                cells = list(arr[1]) if end == 'le' else list(reversed(arr[1]))
                bits = ()
                for c in cells:
                    bits += tuple(bits_of(c))
                return True, mk_bv(w, bits)
            v = args[0]
            bits = bits_of(v)
            cells = [mk_bv(8, bits[8 * i: 8 * i + 8]) for i in range(nb)]
            if end == 'be':
                cells.reverse()
            return True, ('array', tuple(cells))
        if P == 'core::array::equality::<impl core::cmp::PartialEq<[U; N]> for [T; N]>::eq' or \
                P == 'core::array::equality::<impl core::cmp::PartialEq<[U; N]> for [T; N]>::ne':
            a = self.read(st, args[0][1])
            b = self.read(st, args[1][1])
            if a[0] != 'array' or b[0] != 'array' or len(a[1]) != len(b[1]):
                raise Unsupported('array comparison')
            same = True
            for x, y in zip(a[1], b[1]):
                if x[0] not in ('k', 'bv', 'lin') or y[0] not in ('k', 'bv', 'lin'):
                    raise Unsupported('array comparison of non-integer elements')
                if not self.need(st, mk_cmp('Eq', x, y)):
                    same = False
                    break
            if P.endswith('::ne'):
                same = not same
            return True, (TRUE if same else FALSE)
        # --- intrinsics
        if P in ('core::intrinsics::cold_path', 'core::intrinsics::assume', 'core::hint::assert_unchecked'):
            return True, UNIT
        if P in ('core::intrinsics::likely', 'core::intrinsics::unlikely', 'core::hint::likely', 'core::hint::unlikely',
                 'core::intrinsics::black_box', 'core::hint::black_box'):
            return True, args[0]
        if P in ('core::intrinsics::saturating_sub', 'core::intrinsics::saturating_add'):
            a, b = args
            w = width(a)
            if P.endswith('sub'):
                if self.need(st, mk_cmp('Lt', a, b)):
                    return True, K(w, 0)
                return True, self.sub(a, b)
            val, ov = self.arith(st, 'Add', a, b, w, False)
            if val[0] == 'pending':
                self.need(st, ov)
                raise Unsupported('internal: saturating_add not decided after fork')
            if ov == TRUE:
                return True, K(w, mask(w))
            return True, val
        if P == 'core::intrinsics::bswap':
            bits = bits_of(args[0])
            nb = len(bits) // 8
            out = ()
            for i in reversed(range(nb)):
                out += tuple(bits[8 * i: 8 * i + 8])
            return True, mk_bv(len(bits), out)
        if P in ('core::intrinsics::wrapping_add', 'core::intrinsics::wrapping_sub', 'core::intrinsics::wrapping_mul'):
            a, b = args
            w = width(a)
            op = {'add': 'Add', 'sub': 'Sub', 'mul': 'Mul'}[P.rsplit('_', 1)[1]]
            val, ov = self.arith(st, op, a, b, w, False)
            if val[0] == 'pending':
                self.need(st, ov)
                raise Unsupported('internal: wrapping op not decided after fork')
            return True, val
        if P.endswith('RangeInclusiveIteratorImpl>::spec_next') or P.endswith('RangeInclusiveIteratorImpl>::spec_next_back'):
            ref = args[0]
            r = self.read(st, ref[1])
            if r[0] != 'model' or r[1] != 'rangeincl':
                raise Unsupported('RangeInclusive value %s' % (r[0],))
            start, end, exh = r[2], r[3], r[4]
            ret_ty = self.prog.instances[callee['key']]['sig']['output']
            if not (is_const(start) and is_const(end) and is_const(exh)):
                raise Unsupported('RangeInclusive with symbolic bounds: %s..=%s' % (show_term(start), show_term(end)))
            if exh[2] or start[2] > end[2]:
                return True, ('adt', ret_ty['id'], 0, ())
            back = P.endswith('spec_next_back')
            if start[2] < end[2]:
                if back:
                    self.write(st, ref[1], ('model', 'rangeincl', start, K(USIZE, end[2] - 1), exh))
                    return True, ('adt', ret_ty['id'], 1, (end,))
                self.write(st, ref[1], ('model', 'rangeincl', K(USIZE, start[2] + 1), end, exh))
                return True, ('adt', ret_ty['id'], 1, (start,))
            self.write(st, ref[1], ('model', 'rangeincl', start, end, TRUE))
            return True, ('adt', ret_ty['id'], 1, (end if back else start,))
        if P == 'core::ops::RangeInclusive::<Idx>::new':
            return True, ('model', 'rangeincl', args[0], args[1], FALSE)
        if P in ('core::intrinsics::rotate_left', 'core::intrinsics::rotate_right') and is_const(args[1]):
            bits = bits_of(args[0])
            w = len(bits)
            n_ = args[1][2] % w
            if P.endswith('right'):
                n_ = (w - n_) % w
            return True, mk_bv(w, tuple(bits[(i - n_) % w] for i in range(w)))
        if P == 'core::intrinsics::bitreverse':
            bits = bits_of(args[0])
            return True, mk_bv(len(bits), tuple(reversed(bits)))
        if P in ('core::intrinsics::ctpop', 'core::intrinsics::ctlz', 'core::intrinsics::cttz', 'core::intrinsics::ctlz_nonzero', 'core::intrinsics::cttz_nonzero'):
            a = args[0]
            w = width(a)
            bits = bits_of(a)
            if P.endswith('ctpop'):
                # population count: exact as a sum of the bits (each symbolic bit is a one-bit value)
                c0, d = 0, {}
                for b in bits:
                    if b == 1:
                        c0 += 1
                    elif b != 0:
                        cc, tt = lin_of(mk_bv(1, (b,)))
                        c0 += cc
                        for l, c in tt.items():
                            d[l] = d.get(l, 0) + c
                return True, mk_lin(32, c0, d)
            # leading / trailing zeros: decided by testing the bits from one end (forks on symbolic bits)
            order = list(reversed(range(w))) if 'ctlz' in P else list(range(w))
            n_ = 0
            for i in order:
                if self.need(st, mk_cmp('Ne', mk_bv(1, (bits[i],)), K(1, 0))):
                    return True, K(32, n_)
                n_ += 1
            return True, K(32, w)
        m = re.match(r'^core::num::<impl u(8|16|32|64|128|size)>::abs_diff$', P)
        if m:
            a, b = args
            if self.need(st, mk_cmp('Lt', a, b)):
                return True, self.sub(b, a)
            return True, self.sub(a, b)
        if P in ('core::array::<impl [T; N]>::each_ref', 'core::array::<impl [T; N]>::each_mut') and args[0][0] == 'ref':
            arr = self.read(st, args[0][1])
            if arr[0] != 'array':
                raise Unsupported('each_ref on %s' % arr[0])
            root, proj = args[0][1]
            return True, ('array', tuple(('ref', (root, proj + (('i', K(USIZE, i)),))) for i in range(len(arr[1]))))
        if P == 'core::array::<impl [T; N]>::map' and args[0][0] == 'array':
            f = args[1]
            ckey = self.closure_key_of_value(st, f)
            slot = Frame()
            slot.fid = st.next_fid
            st.next_fid += 1
            slot.key = callee['key']
            slot.inst = self.prog.instances[callee['key']]
            slot.body = slot.inst['body']
            slot.locals = {0: f}
            slot.bb = 0
            slot.si = 0
            slot.dest = None
            slot.ret_bb = None
            slot.call_span = None
            st.perm[slot.fid] = slot
            fref = ('ref', (('local', slot.fid, 0), ()))
            return True, ('array', tuple(self.call_sync(st, ckey, [fref, ('tuple', (e,))]) for e in args[0][1]))
        if P in ('core::ops::Fn::call', 'core::ops::FnMut::call_mut', 'core::ops::FnOnce::call_once') and args and args[0][0] == 'dynref':
            inner = self.read(st, args[0][1])
            ckey = self.closure_key_of_value(st, inner)
            return True, self.call_sync(st, ckey, [('ref', args[0][1]), args[1]])
        if P in ('core::num::NonZero::<T>::new', 'core::num::nonzero::NonZero::<T>::new'):
            # a NonZero value is represented by the integer it wraps
            ret_ty = self.prog.instances[callee['key']]['sig']['output']
            x = args[0]
            if self.need(st, mk_cmp('Ne', x, K(width(x), 0))):
                return True, ('adt', ret_ty['id'], 1, (x,))
            return True, ('adt', ret_ty['id'], 0, ())
        if P in ('core::num::NonZero::<T>::get', 'core::num::nonzero::NonZero::<T>::get') and args[0][0] in ('k', 'bv', 'lin'):
            return True, args[0]
        if P == 'core::slice::<impl [T]>::reverse' and args[0][0] == 'slice':
            sl = args[0]
            n_ = self.conc(st, self.slice_len(sl))
            if not is_const(n_) or n_[2] > 64:
                raise Unsupported('reverse of a slice of symbolic length')
            lo = self.conc(st, sl[2])
            vals = [self.read_elem(st, sl[1], self.add(lo, K(USIZE, i))) for i in range(n_[2])]
            for i, v_ in enumerate(reversed(vals)):
                self.write(st, (sl[1][0], sl[1][1] + (('i', self.add(lo, K(USIZE, i))),)), v_)
            return True, UNIT
        if re.match(r"^<core::slice::ChunksExact(Mut)?<'a, T>>::(remainder|into_remainder)$|^core::slice::ChunksExact(Mut)?::<'a, T>::(remainder|into_remainder)$", P):
            it = args[0] if args[0][0] == 'model' else self.read(st, args[0][1])
            if it[0] != 'model' or it[1] != 'chunks' or not it[5]:
                raise Unsupported('remainder on %s' % (it[0],))
            sl, size = it[2], it[3]
            ln = self.conc(st, self.slice_len(sl))
            if not is_const(ln):
                raise Unsupported('chunks_exact remainder of a slice of symbolic length')
            full = (ln[2] // size[2]) * size[2]
            return True, ('slice', sl[1], self.add(sl[2], K(USIZE, full)), sl[3])
        if P in ('core::iter::Iterator::skip', 'core::iter::Iterator::take') and args[0][0] == 'model' and args[0][1] == 'iter':
            it, n_ = args
            sl, pos = it[2], it[3]
            ln = self.slice_len(sl)
            target = self.add(pos, n_)
            if P.endswith('skip'):
                if self.need(st, mk_cmp('Le', target, ln)):
                    return True, ('model', 'iter', sl, target)
                return True, ('model', 'iter', sl, ln)
            if self.need(st, mk_cmp('Le', target, ln)):
                return True, ('model', 'iter', ('slice', sl[1], sl[2], self.add(sl[2], target)), pos)
            return True, it
        if P == 'core::iter::Iterator::step_by' and args[0][0] == 'adt' and self.prog.adts[args[0][1]]['path'] == 'core::ops::Range':
            start, end = args[0][3]
            step = args[1]
            if not is_const(step):
                raise Unsupported('step_by with a symbolic step')
            if step[2] == 0:
                raise Panic('step_by', 'assertion failed: step != 0')
            return True, ('model', 'steprange', start, end, step)
        if P in ('<core::iter::StepBy<I> as core::iter::Iterator>::next',):
            ref = args[0]
            it = self.read(st, ref[1])
            if it[0] != 'model':
                return False, None
            ret_ty = self.prog.instances[callee['key']]['sig']['output']
            newit, item = self.model_next(st, it)
            if item is None:
                return True, ('adt', ret_ty['id'], 0, ())
            self.write(st, ref[1], newit)
            return True, ('adt', ret_ty['id'], 1, (item,))
        m = re.match(r"^core::slice::cmp::<impl core::cmp::PartialEq<\[U\]> for \[T\]>::(eq|ne)$|^core::array::equality::<impl core::cmp::PartialEq<\[U; N\]> for \[T\]>::(eq|ne)$|^core::array::equality::<impl core::cmp::PartialEq<\[U\]> for \[T; N\]>::(eq|ne)$", P)
        if m:
            a_, b_ = self.as_slice(st, args[0]), self.as_slice(st, args[1])
            r_ = self.slices_equal(st, a_, b_)
            ne = (m.group(1) or m.group(2) or m.group(3)) == 'ne'
            return True, ((FALSE if r_ else TRUE) if ne else (TRUE if r_ else FALSE))
        if P in ('core::slice::<impl [T]>::starts_with', 'core::slice::<impl [T]>::ends_with') and args[0][0] == 'slice' and args[1][0] == 'slice':
            hay, needle = args
            n_ = self.slice_len(needle)
            if not self.need(st, mk_cmp('Le', n_, self.slice_len(hay))):
                return True, FALSE
            if P.endswith('starts_with'):
                part = ('slice', hay[1], hay[2], self.add(hay[2], n_))
            else:
                part = ('slice', hay[1], self.sub(hay[3], n_), hay[3])
            return True, (TRUE if self.slices_equal(st, part, needle) else FALSE)
        if re.match(r'^(?:<.*> as core::iter::Iterator>|core::iter::Iterator)::nth$', P) and args and args[0][0] == 'ref' \
                and self.peek_is_model(st, args[0]) and is_const(args[1]) and args[1][2] <= 300:
            ref = args[0]
            it = self.read(st, ref[1])
            ret_ty = self.prog.instances[callee['key']]['sig']['output']
            item = None
            for _ in range(args[1][2] + 1):
                it, item = self.model_next(st, it)
                if item is None:
                    break
            self.write(st, ref[1], it)
            if item is None:
                return True, ('adt', ret_ty['id'], 0, ())
            return True, ('adt', ret_ty['id'], 1, (item,))
        if P in ('core::slice::<impl [T]>::strip_prefix', 'core::slice::<impl [T]>::strip_suffix') and args[0][0] == 'slice':
            hay = args[0]
            needle = self.as_slice(st, args[1])
            ret_ty = self.prog.instances[callee['key']]['sig']['output']
            n_ = self.slice_len(needle)
            if not self.need(st, mk_cmp('Le', n_, self.slice_len(hay))):
                return True, ('adt', ret_ty['id'], 0, ())
            if P.endswith('strip_prefix'):
                part = ('slice', hay[1], hay[2], self.add(hay[2], n_))
                rest = ('slice', hay[1], self.add(hay[2], n_), hay[3])
            else:
                part = ('slice', hay[1], self.sub(hay[3], n_), hay[3])
                rest = ('slice', hay[1], hay[2], self.sub(hay[3], n_))
            if self.slices_equal(st, part, needle):
                return True, ('adt', ret_ty['id'], 1, (rest,))
            return True, ('adt', ret_ty['id'], 0, ())
        # --- Cell
        if P == 'core::cell::Cell::<T>::new' or P.endswith('core::convert::From<T> for core::cell::Cell<T>>::from') or \
                P == '<core::cell::Cell<T> as core::convert::From<T>>::from':
            return True, ('model', 'cell', args[0])
        if P in ('<core::cell::Cell<T> as core::default::Default>::default', 'core::cell::<impl core::default::Default for core::cell::Cell<T>>::default'):
            mt = re.search(r'Cell<([ui](8|16|32|64|size)|bool)>', callee.get('key') or '')
            if not mt:
                return False, None
            bits_ = 1 if mt.group(1) == 'bool' else (64 if mt.group(2) == 'size' else int(mt.group(2)))
            return True, ('model', 'cell', K(bits_, 0))
        if P in ('core::cell::Cell::<T>::get', 'core::cell::Cell::<T>::replace', 'core::cell::Cell::<T>::take'):
            c0_ = self.read(st, args[0][1])
            if c0_[0] == 'model' and c0_[1] == 'cell' and c0_[2][0] == 'lazyinit':
                content = None
                for facts_, cont_ in self.cell_images[c0_[2][1]]:
                    if all(self.need(st, ('atom', a_)) for a_ in facts_):
                        content = cont_
                        break
                if content is None:
                    raise Infeasible()
                root_, proj_ = args[0][1]
                if root_[0] == 'local':
                    frm_ = st.frame_mut(root_[1])
                    frm_.locals[root_[2]] = self._update(st, frm_.locals[root_[2]], proj_, ('model', 'cell', content))
                else:
                    st.heap[root_[1]] = self._update(st, st.heap[root_[1]], proj_, ('model', 'cell', content))
        if P == 'core::cell::Cell::<T>::get':
            c = self.read(st, args[0][1])
            if c[0] != 'model' or c[1] != 'cell':
                raise Unsupported('Cell::get on %s' % (c[0],))
            st.effects.append(('cellread', self.describe_target(st, args[0][1])))
            return True, c[2]
        if P in ('core::cell::Cell::<T>::set', 'core::cell::Cell::<T>::replace'):
            c = self.read(st, args[0][1])
            if c[0] != 'model' or c[1] != 'cell':
                raise Unsupported('Cell::set on %s' % (c[0],))
            name = self.describe_target(st, args[0][1])
            root, proj = args[0][1]
            # a Cell is written through a shared reference: update in place, record the effect
            if root[0] == 'local':
                frm = st.frame_mut(root[1])
                frm.locals[root[2]] = self._update(st, frm.locals[root[2]], proj, ('model', 'cell', args[1]))
            else:
                st.heap[root[1]] = self._update(st, st.heap[root[1]], proj, ('model', 'cell', args[1]))
            # `replace` hands out the old value; a dependence of any output on it shows in the value terms (the cell's
            # initial content is a symbolic leaf), so no separate read effect is recorded for it
            st.effects.append(('cellwrite', name, args[1]))
            return True, (c[2] if P.endswith('replace') else UNIT)
        if P == 'core::cell::Cell::<T>::take':
            c = self.read(st, args[0][1])
            if c[0] != 'model' or c[1] != 'cell':
                raise Unsupported('Cell::take on %s' % (c[0],))
            ret_ty = self.prog.instances[callee['key']]['sig']['output'] if callee.get('key') in self.prog.instances else None
            if ret_ty is None or ret_ty['k'] not in ('int', 'bool'):
                raise Unsupported('Cell::take of a non-integer cell')
            zero = K(ty_bits(ret_ty), 0)
            name = self.describe_target(st, args[0][1])
            root, proj = args[0][1]
            if root[0] == 'local':
                frm = st.frame_mut(root[1])
                frm.locals[root[2]] = self._update(st, frm.locals[root[2]], proj, ('model', 'cell', zero))
            else:
                st.heap[root[1]] = self._update(st, st.heap[root[1]], proj, ('model', 'cell', zero))
            st.effects.append(('cellwrite', name, zero))
            return True, c[2]
        if P == 'smbus_pec::pec':
            return True, self.pec(st, args[0])
        if P == 'core::mem::size_of':
            return False, None
        return False, None

    def as_slice(self, st, v, callee=None):
        """A reference to an array (or a slice) as a slice value."""
        if v[0] == 'slice':
            return v
        if v[0] == 'ref':
            arr = self.read(st, v[1])
            if arr[0] == 'array':
                return ('slice', v[1], K(USIZE, 0), K(USIZE, len(arr[1])))
        raise Unsupported('cannot view %s as a slice' % v[0])

    def slices_equal(self, st, a, b):
        """Element-wise equality of two slices of integers: decided by forking on the lengths and on each element."""
        la, lb = self.slice_len(a), self.slice_len(b)
        if not self.need(st, mk_cmp('Eq', la, lb)):
            return False
        n_ = self.conc(st, la)
        if not is_const(n_):
            n_ = self.conc(st, lb)
        if not is_const(n_):
            c0, ts = lin_of(la)
            lo, hi = st.know.interval(c0, ts)
            if hi - lo > 64:
                raise Unsupported('comparison of slices of unbounded symbolic length')
            for v in range(lo, hi + 1):
                if self.need(st, mk_cmp('Eq', la, K(USIZE, v))):
                    n_ = K(USIZE, v)
                    break
            else:
                raise Infeasible()
        if n_[2] > 64:
            raise Unsupported('comparison of slices longer than 64 elements')
        for i in range(n_[2]):
            x = self.read_elem(st, a[1], self.add(a[2], K(USIZE, i)))
            y = self.read_elem(st, b[1], self.add(b[2], K(USIZE, i)))
            if x[0] not in ('k', 'bv', 'lin') or y[0] not in ('k', 'bv', 'lin'):
                raise Unsupported('comparison of slices of non-integer elements')
            if not self.need(st, mk_cmp('Eq', x, y)):
                return False
        return True

    def as_iter(self, st, v, callee):
        """IntoIterator::into_iter of the kinds of value the models know."""
        if v[0] == 'model' and v[1] in ('iter', 'zip', 'arrayiter', 'chunks', 'rev', 'copied', 'windows', 'steprange'):
            return v
        if v[0] == 'array':
            return ('model', 'arrayiter', v, K(USIZE, 0))
        if v[0] in ('slice', 'ref'):
            return ('model', 'iter', self.as_slice(st, v), K(USIZE, 0))
        raise Unsupported('zip with an iterator of kind %s' % (v[1] if v[0] in ('model', 'adt') else v[0],))

    def model_next(self, st, it):
        """-> (new iterator value, item) or (it, None) when exhausted. May fork."""
        if it[0] != 'model':
            raise Unsupported('next() on %s' % (it[0],))
        if it[1] == 'iter':
            sl, pos = it[2], it[3]
            ln = self.slice_len(sl)
            cond = mk_cmp('Lt', pos, ln)
            if not is_const(cond):
                c0, t0 = lin_of(ln)
                lo, hi = st.know.interval(c0, t0)
                if not is_const(pos) or (pos[2] >= 64 and hi - pos[2] > 64):
                    raise Unsupported('loop over a slice whose symbolic length is not bounded (%s in [%d, %d])' % (show_term(ln), lo, hi))
            if self.need(st, cond):
                eref = ('ref', (sl[1][0], sl[1][1] + (('i', self.add(sl[2], pos)),)))
                return ('model', 'iter', sl, self.add(pos, K(USIZE, 1))), eref
            return it, None
        if it[1] == 'rev':
            inner = it[2]
            if inner[0] != 'model' or inner[1] != 'iter':
                raise Unsupported('rev over %s' % (inner[1],))
            sl, pos = inner[2], inner[3]
            ln = self.conc(st, self.slice_len(sl))
            if not is_const(ln):
                c0, t0 = lin_of(ln)
                lo, hi = st.know.interval(c0, t0)
                if hi - lo > 64:
                    raise Unsupported('reverse loop over a slice whose symbolic length is not bounded')
                for v in range(lo, hi + 1):
                    if self.need(st, mk_cmp('Eq', ln, K(USIZE, v))):
                        ln = K(USIZE, v)
                        break
            if self.need(st, mk_cmp('Lt', pos, ln)):
                last = self.conc(st, self.sub(sl[3], K(USIZE, 1)))
                eref = ('ref', (sl[1][0], sl[1][1] + (('i', last),)))
                return ('model', 'rev', ('model', 'iter', ('slice', sl[1], sl[2], last), pos)), eref
            return it, None
        if it[1] == 'copied':
            ni, item = self.model_next(st, it[2])
            if item is None:
                return it, None
            return ('model', 'copied', ni), self.read(st, item[1])
        if it[1] == 'steprange':
            cur, end, step = it[2], it[3], it[4]
            if self.need(st, mk_cmp('Lt', cur, end)):
                nxt = self.add(cur, step)
                if is_const(cur) and cur[2] > (1 << 20):
                    raise Unsupported('step_by loop does not terminate')
                return ('model', 'steprange', nxt, end, step), cur
            return it, None
        if it[1] == 'windows':
            sl, size, pos = it[2], it[3], it[4]
            if pos[2] > 300:
                raise Unsupported('window loop does not terminate within 300 iterations')
            ln = self.slice_len(sl)
            if self.need(st, mk_cmp('Le', K(USIZE, pos[2] + size[2]), ln)):
                item = ('slice', sl[1], self.add(sl[2], pos), self.add(sl[2], K(USIZE, pos[2] + size[2])))
                return ('model', 'windows', sl, size, K(USIZE, pos[2] + 1)), item
            return it, None
        if it[1] == 'chunks':
            sl, size, pos, exact = it[2], it[3], it[4], it[5]
            ln = self.slice_len(sl)
            start = mk_lin(USIZE, pos[2] * size[2], {})
            end = K(USIZE, (pos[2] + 1) * size[2])
            if pos[2] > 300:
                raise Unsupported('chunk loop does not terminate within 300 iterations')
            if self.need(st, mk_cmp('Le', end, ln)):
                item = ('slice', sl[1], self.add(sl[2], start), self.add(sl[2], end))
                return ('model', 'chunks', sl, size, K(USIZE, pos[2] + 1), exact), item
            if not exact and self.need(st, mk_cmp('Lt', start, ln)):
                item = ('slice', sl[1], self.add(sl[2], start), sl[3])
                return ('model', 'chunks', sl, size, K(USIZE, pos[2] + 1), exact), item
            return it, None
        if it[1] == 'arrayiter':
            arr, pos = it[2], it[3]
            if pos[2] < len(arr[1]):
                return ('model', 'arrayiter', arr, K(USIZE, pos[2] + 1)), arr[1][pos[2]]
            return it, None
        if it[1] == 'zip':
            na, ia = self.model_next(st, it[2])
            if ia is None:
                return it, None
            nb, ib = self.model_next(st, it[3])
            if ib is None:
                return it, None
            return ('model', 'zip', na, nb), ('tuple', (ia, ib))
        raise Unsupported('next() on model %s' % it[1])

    def closure_key_of(self, callee):
        """The closure instance that a (modelled) higher-order core function calls: found in its own MIR."""
        inst = self.prog.instances.get(callee['key'])
        if inst is None:
            raise Unsupported('no MIR for %s' % callee['path'])
        keys = []
        for b in inst['body']['blocks']:
            tm = b['term']
            if tm['k'] == 'call' and tm['callee'].get('key'):
                ci = self.prog.instances.get(tm['callee']['key'])
                if ci is not None and ci.get('closure'):
                    keys.append(tm['callee']['key'])
        keys = sorted(set(keys))
        if len(keys) != 1:
            raise Unsupported('cannot identify the closure called by %s (%d candidates)' % (callee['path'], len(keys)))
        return keys[0]

    def closure_key_of_deep(self, callee, depth=0):
        """Like closure_key_of, but follows calls into non-local helpers (array::from_fn -> try_from_fn -> ...)."""
        try:
            return self.closure_key_of(callee)
        except Unsupported:
            if depth > 4:
                raise
        inst = self.prog.instances.get(callee['key'])
        if inst is None:
            raise Unsupported('no MIR for %s' % callee['path'])
        found = set()
        for b in inst['body']['blocks']:
            tm = b['term']
            if tm['k'] == 'call' and tm['callee'].get('key') and not tm['callee'].get('local'):
                try:
                    found.add(self.closure_key_of_deep(tm['callee'], depth + 1))
                except Unsupported:
                    pass
        # keep only user closures (defined in the analysed crate)
        user = sorted(k for k in found if self.prog.instances[k]['crate'] == self.prog.meta['crate'])
        if len(user) != 1:
            raise Unsupported('cannot identify the closure called by %s' % callee['path'])
        return user[0]

    def call_sync(self, st, key, args):
        """Run a callee to its return inside a model. A fork inside it re-executes the whole modelled call."""
        depth = len(st.frames)
        if getattr(self, '_stmt_snap', None) is None:
            self._stmt_snap = st.clone()
        self.push_frame(st, key, args, None, -1, None)
        holder = []
        guard = 0
        while len(st.frames) > depth:
            guard += 1
            st.steps += 1
            self.stats['steps'] += 1
            if guard > 200000 or st.steps > self.max_steps:
                raise Unsupported('step budget exhausted inside a closure call')
            fr = st.frames[-1]
            blk = fr.body['blocks'][fr.bb]
            try:
                if fr.si < len(blk['stmts']):
                    s_ = blk['stmts'][fr.si]
                    if s_['k'] != 'assign':
                        raise Unsupported('statement %s' % s_.get('dbg', s_['k']))
                    self.assign(st, fr, s_['place'], self.rvalue(st, fr, s_['rv']))
                    fr.si += 1
                    continue
                tm = blk['term']
                if tm['k'] == 'return' and len(st.frames) == depth + 1:
                    holder.append(fr.locals.get(0, UNIT))
                    st.frames.pop()
                    break
                self.terminator(st, fr, tm, None)
            except BaseException:
                del st.frames[depth:]
                raise
        return holder[0]

    def peek_is_model(self, st, ref):
        try:
            v = self.read(st, ref[1])
        except Exception:
            return False
        return isinstance(v, tuple) and len(v) > 1 and v[0] == 'model' and v[1] in ('iter', 'zip', 'arrayiter', 'chunks', 'rev', 'copied', 'windows', 'steprange')

    def closure_key_of_value(self, st, f):
        """The instance of a closure value: its definition path, monomorphised as the innermost frame that defines it."""
        if not (isinstance(f, tuple) and f and f[0] == 'closure'):
            raise NotAClosure('a callable that is not a closure value is passed to a modelled iterator method')
        if len(f) > 3 and f[3] and f[3] in self.prog.instances:
            return f[3]         # the monomorphic instance recorded where the closure value was built
        cands = [k for k, i in self.prog.instances.items() if i.get('closure') and i['path'] == f[1]]
        if len(cands) == 1:
            return cands[0]
        for fr in reversed(st.frames):
            hit = [k for k in cands if k.startswith(fr.key + '::{closure')]
            if len(hit) == 1:
                return hit[0]
        raise NotAClosure('cannot identify the instance of closure %s (%d candidates)' % (f[1], len(cands)))

    def iter_closure_method(self, st, meth, callee, args):
        ckey_from_value = False
        try:
            ckey = self.closure_key_of(callee)
        except Unsupported:
            ckey_from_value = True
            fv = args[2] if meth == 'fold' else args[1]
            ckey = None if fv[0] == 'ref' else self.closure_key_of_value(st, fv)
        ret_ty = self.prog.instances[callee['key']]['sig']['output']
        itref = args[0]
        by_value = itref[0] == 'model'
        it = itref if by_value else self.read(st, itref[1])
        if meth == 'fold':
            acc, f = args[1], args[2]
        else:
            f = args[1]
        f_by_ref = None
        if f[0] == 'ref':
            # `&mut F` used as the callable (core's adapters pass `&mut self.f`): call the closure behind it
            inner = self.read(st, f[1])
            if inner[0] == 'closure':
                f_by_ref = f
                if ckey_from_value:
                    ckey = self.closure_key_of_value(st, inner)
        # the closure is passed by value: keep it in a permanent slot so that `&mut f` has a target
        slot = Frame()
        slot.fid = st.next_fid
        st.next_fid += 1
        slot.key = callee['key']
        slot.inst = self.prog.instances[callee['key']]
        slot.body = slot.inst['body']
        slot.locals = {0: f}
        slot.bb = 0
        slot.si = 0
        slot.dest = None
        slot.ret_bb = None
        slot.call_span = None
        st.perm[slot.fid] = slot
        fref = f_by_ref or ('ref', (('local', slot.fid, 0), ()))
        if ckey is None:
            raise NotAClosure('a callable that is not a closure value is passed to a modelled iterator method')
        n_ = 0
        result = None
        pos = 0
        while True:
            n_ += 1
            if n_ > 300:
                raise Unsupported('closure-driven loop does not terminate within 300 iterations')
            newit, item = self.model_next(st, it)
            if item is None:
                break
            it = newit
            if meth == 'fold':
                acc = self.call_sync(st, ckey, [fref, ('tuple', (acc, item))])
            elif meth == 'for_each':
                self.call_sync(st, ckey, [fref, ('tuple', (item,))])
            elif meth in ('all', 'any'):
                r = self.call_sync(st, ckey, [fref, ('tuple', (item,))])
                if self.need(st, r) != (meth == 'all'):
                    result = FALSE if meth == 'all' else TRUE
                    break
            elif meth == 'position':
                r = self.call_sync(st, ckey, [fref, ('tuple', (item,))])
                if self.need(st, r):
                    result = ('adt', ret_ty['id'], 1, (K(USIZE, pos),))
                    break
                pos += 1
            elif meth == 'find':
                r = self.call_sync(st, ckey, [fref, ('tuple', (('ref', (('local', slot.fid, 1), ())),))]) if False else None
                slot = st.frame_mut(slot.fid)
                slot.locals[1] = item
                r = self.call_sync(st, ckey, [fref, ('tuple', (('ref', (('local', slot.fid, 1), ())),))])
                if self.need(st, r):
                    result = ('adt', ret_ty['id'], 1, (item,))
                    break
        if not by_value:
            self.write(st, itref[1], it)
        if meth == 'fold':
            return acc
        if meth == 'for_each':
            return UNIT
        if meth in ('all', 'any'):
            return result if result is not None else (TRUE if meth == 'all' else FALSE)
        return result if result is not None else ('adt', ret_ty['id'], 0, ())

    def fill(self, st, sl, val):
        if sl[0] != 'slice':
            raise Unsupported('fill on %s' % sl[0])
        n = self.conc(st, self.slice_len(sl))
        lo = self.conc(st, sl[2])
        root, proj = sl[1]
        obj = st.heap[root[1]] if root[0] == 'heap' else None
        if obj is not None and obj[0] == 'buf' and not proj:
            if is_const(n) and n[2] == 0:
                return
            if is_const(n) and n[2] <= 64:
                st.heap[root[1]] = ('buf', obj[1], obj[2] + ((lo, n, ('cells', (val,) * n[2])),))
            else:
                st.heap[root[1]] = ('buf', obj[1], obj[2] + ((lo, n, ('fill', val)),))
            st.effects.append(('outwrite', obj[1], lo, n))
            return
        if not (is_const(n) and is_const(lo)):
            raise Unsupported('fill of a local array region with symbolic bounds')
        for i in range(n[2]):
            self.write(st, (root, proj + (('i', K(USIZE, lo[2] + i)),)), val)

    def pec_key(self, st, sl):
        base = sl[1]
        root, proj = base
        obj = st.heap[root[1]] if root[0] == 'heap' else None
        if obj is not None and not proj and obj[0] == 'symslice':
            return ('in', obj[1], sl[2], sl[3])
        if obj is not None and not proj and obj[0] == 'buf':
            # writes not provably disjoint from the view, in order
            kn = st.know
            keep = []
            for (lo, n, content) in obj[2]:
                # disjoint if lo+n <= view.lo or lo >= view.hi
                alo, ahi = self.diff_interval(st, self.add(lo, n), sl[2])
                blo, bhi = self.diff_interval(st, lo, sl[3])
                if ahi <= 0 or blo >= 0:
                    continue
                keep.append((lo, n, content))
            return ('segs', obj[1], sl[2], sl[3], tuple(keep))
        # concrete local array
        if is_const(sl[2]) and is_const(sl[3]):
            cells = tuple(self.read_elem(st, base, K(USIZE, i)) for i in range(sl[2][2], sl[3][2]))
            return ('cells', cells)
        raise Unsupported('pec over an unsupported view')

    def pec(self, st, sl):
        if sl[0] != 'slice':
            raise Unsupported('pec argument %s' % (sl[0],))
        key = self.pec_key(st, sl)
        leaf = ('pec', key)
        st.effects.append(('pec', key))
        return mk_bv(8, tuple((leaf, i) for i in range(8)))

    def copy_from_slice(self, st, dst, src):
        if dst[0] != 'slice' or src[0] != 'slice':
            raise Unsupported('copy_from_slice on %s/%s' % (dst[0], src[0]))
        dl, sl_ = self.conc(st, self.slice_len(dst)), self.conc(st, self.slice_len(src))
        dst = ('slice', dst[1], self.conc(st, dst[2]), dst[3])
        src = ('slice', src[1], self.conc(st, src[2]), src[3])
        if not self.need(st, mk_cmp('Eq', dl, sl_)):
            raise Panic('copy_len', 'copy_from_slice: source slice length (%s) does not match destination slice length (%s)' % (show_term(sl_), show_term(dl)))
        droot, dproj = dst[1]
        dobj = st.heap[droot[1]] if droot[0] == 'heap' else None
        if dobj is not None and dobj[0] == 'buf' and not dproj:
            sroot = src[1][0]
            if not is_const(dl) and sroot[0] == 'local':
                # a region of a local array must be copied by value (the frame dies): split on its bounded length
                c0, ts = lin_of(dl)
                lo, hi = st.know.interval(c0, ts)
                if hi - lo > 64:
                    raise Unsupported('copy of a local array region of unbounded symbolic length')
                for v in range(lo, hi + 1):
                    if self.need(st, mk_cmp('Eq', dl, K(USIZE, v))):
                        dl = K(USIZE, v)
                        break
                else:
                    raise Infeasible()
            if is_const(dl) and dl[2] == 0:
                return
            if is_const(dl) and dl[2] <= 64:
                cells = tuple(self.read_elem(st, src[1], self.add(src[2], K(USIZE, i))) for i in range(dl[2]))
                st.heap[droot[1]] = ('buf', dobj[1], dobj[2] + ((dst[2], dl, ('cells', cells)),))
            else:
                st.heap[droot[1]] = ('buf', dobj[1], dobj[2] + ((dst[2], dl, ('copy', (src[1], src[2], src[3]))),))
            st.effects.append(('outwrite', dobj[1], dst[2], dl))
            return
        if not is_const(dl):
            c0, ts = lin_of(dl)
            lo, hi = st.know.interval(c0, ts)
            if hi - lo > 64:
                raise Unsupported('copy_from_slice of unbounded symbolic length into a local array')
            for v in range(lo, hi + 1):
                if self.need(st, mk_cmp('Eq', dl, K(USIZE, v))):
                    dl = K(USIZE, v)
                    break
            else:
                raise Infeasible()
        if not is_const(dst[2]):
            raise Unsupported('copy_from_slice into a local array at symbolic offset %s' % show_term(dst[2]))
        for i in range(dl[2]):
            v = self.read_elem(st, src[1], self.add(src[2], K(USIZE, i)))
            self.write(st, (droot, dproj + (('i', K(USIZE, dst[2][2] + i)),)), v)

    # ------------------------------------------------------------------ main loop
    def run(self, entry_key, make_args, assumptions=None, label=None):
        """make_args(interp, state, inst) -> list of argument values. Returns list of Leaf."""
        inst = self.prog.instances[entry_key]
        st = State()
        st.frames = []
        st.perm = {}
        st.heap = {}
        st.know = Know()
        st.effects = []
        st.next_fid = 1
        st.steps = 0
        st.notes = []
        args = make_args(self, st, inst)
        for a in (assumptions(self, st) if assumptions else []):
            st.know.assume(a)
        n_assumed = len(st.know.facts)
        self.push_frame(st, entry_key, args, None, None, None)
        leaves = []
        work = [st]
        start_steps = self.stats['steps']
        while work:
            s = work.pop()
            if len(leaves) > self.max_leaves or self.stats['steps'] - start_steps > self.total_steps:
                # analysis budget exhausted: fail closed with one unanalysable leaf for everything not explored
                lf = self.make_leaf(s, 'unanalysable', panic=('budget', 'analysis budget exhausted (%d leaves, %d steps): paths of %s left unexplored' % (
                    len(leaves), self.stats['steps'] - start_steps, entry_key)))
                leaves.append(lf)
                break
            try:
                self.run_state(s, work, leaves, entry_key)
            except Infeasible:
                continue
        for lf in leaves:
            lf.entry = label or entry_key
        return leaves, n_assumed

    def push_frame(self, st, key, args, dest, ret_bb, call_span):
        inst = self.prog.instances[key]
        body = inst['body']
        if inst.get('closure') and args:
            # closures are called through the Fn* traits with their arguments in one tuple
            last = args[-1]
            if last[0] in ('tuple', 'unit'):
                args = list(args[:-1]) + (list(last[1]) if last[0] == 'tuple' else [])
        if len(args) != body['argc']:
            raise Unsupported('arity mismatch calling %s' % key)
        fr = Frame()
        fr.fid = st.next_fid
        st.next_fid += 1
        fr.key = key
        fr.inst = inst
        fr.body = body
        fr.locals = {}
        for i, a in enumerate(args):
            fr.locals[i + 1] = a
        fr.bb = 0
        fr.si = 0
        fr.dest = dest
        fr.ret_bb = ret_bb
        fr.call_span = call_span
        st.frames.append(fr)
        self.stats['instances'].add(key)
        if len(st.frames) > 64:
            raise Unsupported('call depth exceeds 64 (recursion?)')

    def make_leaf(self, st, kind, value=None, panic=None):
        lf = Leaf()
        lf.kind = kind
        lf.value = value
        lf.facts = list(st.know.facts)
        lf.know = st.know
        lf.effects = list(st.effects)
        lf.heap = dict(st.heap)
        stack = []
        for f in st.frames:
            blk = f.body['blocks'][f.bb]
            if f.si < len(blk['stmts']):
                sp = blk['stmts'][f.si]['span']
            else:
                sp = blk['span']
            stack.append((f.key, sp.get('callsite') or sp['at'], sp['at']))
        lf.stack = stack
        lf.panic = panic
        lf.entry = None
        lf.notes = list(st.notes)
        return lf

    def run_state(self, st, work, leaves, entry_key):
        while True:
            st.steps += 1
            self.stats['steps'] += 1
            if st.steps > self.max_steps:
                leaves.append(self.make_leaf(st, 'unanalysable', panic=('fuel', 'step budget exhausted')))
                return
            fr = st.frames[-1]
            blk = fr.body['blocks'][fr.bb]
            self._stmt_snap = None      # set by call_sync: the state before the first synchronous callee of this statement
            try:
                if fr.si < len(blk['stmts']):
                    s = blk['stmts'][fr.si]
                    if s['k'] == 'assign':
                        v = self.rvalue(st, fr, s['rv'])
                        self.assign(st, fr, s['place'], v)
                    elif s['k'] == 'set_discriminant':
                        raise Unsupported('SetDiscriminant')
                    else:
                        raise Unsupported('statement %s' % s.get('dbg', s['k']))
                    fr.si += 1
                    continue
                done = self.terminator(st, fr, blk['term'], leaves)
                if done:
                    return
            except Fork as f:
                self.stats['forks'] += 1
                if self._stmt_snap is not None:
                    # the statement ran callees synchronously (closure-driven models) before it had to fork: their side
                    # effects must not survive into the re-execution of the statement
                    st.restore(self._stmt_snap)
                    self._stmt_snap = None
                other = st.clone()
                ok_a = ok_b = True
                try:
                    st.know.assume(f.atom)
                except Infeasible:
                    ok_a = False
                try:
                    other.know.assume(mk_not(f.atom))
                except Infeasible:
                    ok_b = False
                if ok_b:
                    work.append(other)
                if not ok_a:
                    return
                continue
            except Panic as p:
                leaves.append(self.make_leaf(st, 'panic', panic=(p.kind, p.msg)))
                return
            except Unsupported as u:
                leaves.append(self.make_leaf(st, 'unanalysable', panic=('unsupported', str(u.args[0]) if u.args else 'unsupported')))
                return

    def terminator(self, st, fr, t, leaves):
        k = t['k']
        if k == 'goto':
            fr.bb, fr.si = t['target'], 0
            return False
        if k == 'drop':
            fr.bb, fr.si = t['target'], 0
            return False
        if k == 'switch':
            d = self.operand(st, fr, t['discr'])
            if d[0] == 'symenum':
                d = d[2]
            w = ty_bits(t['discr_ty'])
            if is_const(d):
                for v, target in t['cases']:
                    if int(v) == d[2]:
                        fr.bb, fr.si = target, 0
                        return False
                fr.bb, fr.si = t['otherwise'], 0
                return False
            for v, target in t['cases']:
                if self.need(st, mk_cmp('Eq', d, K(w, int(v)))):
                    fr.bb, fr.si = target, 0
                    return False
            fr.bb, fr.si = t['otherwise'], 0
            return False
        if k == 'assert':
            c = self.operand(st, fr, t['cond'])
            if self.need(st, c, t['expected']):
                fr.bb, fr.si = t['target'], 0
                return False
            ops = []
            for o in t['ops']:
                try:
                    ov = self.operand(st, fr, o)
                    ops.append(show_term(ov) if ov[0] in ('k', 'bv', 'lin', 'atom') else ov[0])
                except Exception:
                    ops.append('?')
            raise Panic('assert:' + t['kind'], '%s(%s)' % (t['kind'], ', '.join(ops)))
        if k == 'return':
            v = fr.locals.get(0, UNIT)
            st.frames.pop()
            if not st.frames:
                st.frames.append(fr)  # keep for the stack description
                leaves.append(self.make_leaf(st, 'return', value=v))
                return True
            caller = st.frames[-1]
            if fr.dest is not None:
                self.assign(st, caller, fr.dest, v)
            if fr.ret_bb is None:
                raise Unsupported('return from a call that the caller treats as diverging')
            caller.bb, caller.si = fr.ret_bb, 0
            return False
        if k == 'call':
            return self.call(st, fr, t, leaves)
        if k == 'unreachable':
            raise Unsupported('`unreachable` terminator reached (analysis lost precision or UB)')
        raise Unsupported('terminator %s %s' % (k, t.get('dbg', '')))

    def call(self, st, fr, t, leaves):
        callee = t['callee']
        if callee.get('kind') == 'indirect' and t.get('fn_operand'):
            fv = self.operand(st, fr, t['fn_operand'])
            if fv[0] == 'fn' and fv[1]:
                callee = fv[1]          # a call through a function pointer whose target is known on this path
                t = dict(t, callee=callee)
            else:
                raise Unsupported('call through a function pointer of unknown target (%s)' % fv[0])
        path = callee['path']
        args = [self.operand(st, fr, a) for a in t['args']]
        handled, val = self.call_model(st, fr, path, callee, args, t)
        if handled:
            if t['target'] is None:
                raise Unsupported('modelled call that diverges')
            self.assign(st, fr, t['dest'], val)
            fr.bb, fr.si = t['target'], 0
            return False
        if callee.get('default_key') and args and (args[0][0] == 'model' or (args[0][0] == 'ref' and self.peek_is_model(st, args[0]))) \
                and callee['default_key'] in self.prog.instances:
            # an overridden iterator-trait method on a modelled iterator without a model of its own: the trait's default
            # body, which only needs next() / next_back()
            self.push_frame(st, callee['default_key'], args, t['dest'], t['target'], t['fn_span'].get('callsite') or t['fn_span']['at'])
            return False
        if not callee['has_mir'] or callee['key'] is None:
            if t['target'] is None or path.startswith('core::panicking::'):
                msg = ''
                for a in args:
                    if a[0] == 'str':
                        msg = a[1]
                # message of panic_fmt comes from Arguments::from_str
                if not msg:
                    for a in args:
                        if a[0] == 'fmtargs':
                            msg = a[1]
                raise Panic('call:' + path, msg)
            raise Unsupported('call to function without MIR and without model: %s' % path)
        if path == "core::fmt::Arguments::<'a>::from_str":
            self.assign(st, fr, t['dest'], ('fmtargs', args[0][1] if args[0][0] == 'str' else ''))
            fr.bb, fr.si = t['target'], 0
            return False
        if callee['kind'] not in ('item', 'closure_once_shim', 'fn_ptr_shim', 'reify_shim', 'clone_shim'):
            raise Unsupported('call to shim %s (%s)' % (path, callee['kind']))
        self.push_frame(st, callee['key'], args, t['dest'], t['target'], t['fn_span'].get('callsite') or t['fn_span']['at'])
        return False


# ---------------------------------------------------------------------- value printing

def show_value(v, prog=None):
    k = v[0]
    if k in ('k', 'bv', 'lin', 'atom'):
        return show_term(v)
    if k == 'unit':
        return '()'
    if k == 'tuple':
        return '(' + ', '.join(show_value(x, prog) for x in v[1]) + ')'
    if k == 'adt':
        name = v[1]
        vn = str(v[2])
        if prog is not None and v[1] in prog.adts:
            a = prog.adts[v[1]]
            name = a['path'].split('::')[-1]
            vn = a['variants'][v[2]]['name']
            if a['kind'] == 'struct':
                return '%s{%s}' % (name, ', '.join(show_value(x, prog) for x in v[3]))
        if v[3]:
            return '%s(%s)' % (vn, ', '.join(show_value(x, prog) for x in v[3]))
        return vn
    if k == 'symenum':
        return 'enum<%s>' % show_term(v[2])
    if k == 'array':
        return '[' + ', '.join(show_value(x, prog) for x in v[1]) + ']'
    if k == 'slice':
        root, proj = v[1]
        return '&%s%s[%s..%s]' % (root[1] if root[0] == 'heap' else '_%s' % (root[2],), ''.join('.%s' % (p[1],) for p in proj), show_term(v[2]), show_term(v[3]))
    if k == 'ref':
        root, proj = v[1]
        return '&%s%s' % (root[1] if root[0] == 'heap' else '_%s' % (root[2],), ''.join('.%s' % (p[1],) if p[0] == 'f' else '[%s]' % show_term(p[1]) for p in proj))
    if k == 'model':
        return 'model:%s' % v[1]
    return k
