import sys, time
sys.path.insert(0, '/verif/engine')
from interp import *
from entries import *
from terms import *
prog = Program(sys.argv[1])
it = Interp(prog)
def hook(name):
    if len(name) == 4 and name[:2] == ('self', 'vendor_ids') and name[3] == 'format':
        return (0, 1)
    return None
it.domain_hook = hook
key = prog.find("MCTPSMBusContext::<'_>::process_packet")
def assume(interp, st):
    return [
        mk_cmp('Ge', len_term('response_buf'), K(USIZE, 64))[1],
        mk_cmp('Le', len_term('self', 'msg_types'), K(USIZE, 30))[1],
        mk_cmp('Ge', len_term('self', 'vendor_ids'), K(USIZE, 1))[1],
        mk_cmp('Le', len_term('self', 'vendor_ids'), K(USIZE, 16))[1],
    ]
t0 = time.time()
leaves, na = it.run(key, default_args(), assume)
print(key, len(leaves), 'leaves', '%.2fs' % (time.time() - t0), it.stats['steps'], 'steps', it.stats['forks'], 'forks')
from collections import Counter
print(Counter(l.kind for l in leaves))
for lf in leaves:
    print(dump_leaf(lf, prog, na))
