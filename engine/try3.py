import sys, time
sys.path.insert(0, '/verif/engine')
from interp import *
from entries import *
from terms import *
from collections import Counter
prog = Program(sys.argv[1])
keys = [k for k in prog.instances if ('MCTPSMBusContextRequest::' in k or 'MCTPSMBusContextResponse::' in k) and prog.instances[k]['local']]
for key in sorted(keys):
    it = Interp(prog)
    t0 = time.time()
    try:
        opts = {('message_header',): 1}
        leaves, na = it.run(key, default_args(opts=opts))
    except Exception as e:
        print('EXC', key, repr(e)); continue
    c = Counter(l.kind for l in leaves)
    print('%-110s %4d leaves %s %.2fs' % (key, len(leaves), dict(c), time.time() - t0))
    for lf in leaves:
        if lf.kind == 'unanalysable':
            print('     UNANALYSABLE', lf.panic, lf.stack[-1][:2])
