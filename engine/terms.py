"""Term algebra of the analyser: canonical bit-vector / linear forms, atoms, knowledge.

Terms (immutable tuples):
  ('k',  w, n)                 constant, 0 <= n < 2**w (two's complement bit pattern)
  ('bv', w, bits)              bits: tuple of length w, LSB first; bit := 0 | 1 | (leaf, k)
  ('lin', w, c0, terms)        exact integer c0 + sum coef*U(leaf); terms: sorted tuple of (leaf, coef)
  ('atom', atom)               a boolean (w = 1) that is an undecided comparison

Leaves (symbols):
  ('in', name, w, domain)      an input: name is a tuple path, domain None or a sorted tuple of values
  ('len', name)                length of a symbolic slice (w = 64)
  ('pec', key)                 result of smbus_pec::pec over the view described by key (w = 8)
  ('opq', w, tag, payload)     anything else, kept structurally

Atoms:  ('eq', a, b) | ('lt', a, b) (unsigned <) | ('not', atom)

Canonical forms: equal forms imply equal values; the converse may fail (then rules fail closed).
"""

USIZE = 64
ISIZE_MAX = (1 << 63) - 1


class Unsupported(Exception):
    """The analyser cannot represent / decide something: fail closed."""


def mask(w):
    return (1 << w) - 1


# ----------------------------------------------------------------------------- leaves

def leaf_width(leaf):
    k = leaf[0]
    if k == 'in':
        return leaf[2]
    if k == 'len':
        return USIZE
    if k == 'pec':
        return 8
    if k == 'opq':
        return leaf[1]
    raise Unsupported('leaf kind %r' % (k,))


def leaf_domain(leaf):
    """Finite set of values a leaf can take irrespective of path facts, or None."""
    if leaf[0] == 'in':
        if leaf[3] is not None:
            return leaf[3]
        if leaf[2] <= 8:
            return tuple(range(1 << leaf[2]))
    if leaf[0] == 'pec':
        return None  # 256 values but uninterpreted: never enumerate (its value is tied to other bytes)
    return None


def leaf_bits(leaf):
    """Bits of a leaf, using its domain to fix bits that are the same for every value."""
    w = leaf_width(leaf)
    if leaf[0] == 'in' and leaf[3] is not None:
        dom = leaf[3]
        out = []
        for k in range(w):
            vals = set((v >> k) & 1 for v in dom)
            out.append(vals.pop() if len(vals) == 1 else (leaf, k))
        return tuple(out)
    if leaf[0] == 'opq' and leaf[2] == 'bv':
        return leaf[3]
    return tuple((leaf, k) for k in range(w))


# ----------------------------------------------------------------------------- constructors

def K(w, n):
    return ('k', w, n & mask(w))


TRUE = ('k', 1, 1)
FALSE = ('k', 1, 0)


def is_const(t):
    return t[0] == 'k'


def width(t):
    if t[0] == 'atom':
        return 1
    return t[1]


def mk_bv(w, bits):
    bits = tuple(bits)
    assert len(bits) == w, (w, bits)
    if all(b == 0 or b == 1 for b in bits):
        n = 0
        for i, b in enumerate(bits):
            n |= b << i
        return ('k', w, n)
    return ('bv', w, bits)


def _zext_leaf(bits):
    """If bits is exactly the zero-extension of one whole leaf (per leaf_bits), return the leaf."""
    first = None
    for b in bits:
        if isinstance(b, tuple):
            first = b[0]
            break
    if first is None:
        return None
    lb = leaf_bits(first)
    wl = len(lb)
    if wl > len(bits):
        return None
    if tuple(bits[:wl]) != lb:
        return None
    if any(b != 0 for b in bits[wl:]):
        return None
    return first


def mk_lin(w, c0, terms):
    """terms: dict leaf -> coef (or iterable of pairs)."""
    if not isinstance(terms, dict):
        terms = dict(terms)
    items = tuple(sorted(((l, c) for l, c in terms.items() if c != 0), key=lambda x: repr(x[0])))
    if not items:
        return ('k', w, c0 & mask(w))
    if c0 == 0 and len(items) == 1 and items[0][1] == 1:
        leaf = items[0][0]
        if leaf[0] == 'opq' and leaf[2] == 'bv' and leaf[1] <= w:
            return mk_bv(w, tuple(leaf[3]) + (0,) * (w - leaf[1]))
        if leaf[0] != 'len' and leaf_width(leaf) <= w:
            lb = leaf_bits(leaf)
            return mk_bv(w, lb + (0,) * (w - len(lb)))
    return ('lin', w, c0, items)


def bits_of(t):
    k = t[0]
    if k == 'k':
        return tuple((t[2] >> i) & 1 for i in range(t[1]))
    if k == 'bv':
        return t[2]
    if k == 'lin':
        exact = _lin_fields(t)
        if exact is not None:
            return exact
        leaf = ('opq', t[1], 'lin', (t[2], t[3]))
        return tuple((leaf, i) for i in range(t[1]))
    if k == 'atom':
        leaf = ('opq', 1, 'atom', t[1])
        return ((leaf, 0),)
    raise Unsupported('bits_of %r' % (t,))


def _lin_fields(t):
    """Bits of c0 + sum 2^s_i * leaf_i when the shifted leaves and the constant occupy pairwise disjoint bit ranges
    inside the width (a multiplication by a power of two used as a shift, an addition used as an OR): exact, else None."""
    w, c0, terms = t[1], t[2], t[3]
    if c0 < 0 or c0 >> w:
        return None
    out = [(c0 >> i) & 1 for i in range(w)]
    used = [b != 0 for b in out]
    for leaf, c in terms:
        if c <= 0 or c & (c - 1):
            return None
        sh = c.bit_length() - 1
        try:
            lb = leaf_bits(leaf)
        except Unsupported:
            return None
        n = len(lb)
        while n > 0 and lb[n - 1] == 0:
            n -= 1
        if sh + n > w:
            return None
        for i in range(n):
            if lb[i] == 0:
                continue
            if used[sh + i]:
                return None
            used[sh + i] = True
            out[sh + i] = lb[i]
    return tuple(out)


def lin_of(t):
    """-> (c0, dict leaf->coef): the exact unsigned value of t."""
    k = t[0]
    if k == 'k':
        return t[2], {}
    if k == 'lin':
        return t[2], dict(t[3])
    if k == 'bv':
        leaf = _zext_leaf(t[2])
        if leaf is not None:
            return 0, {leaf: 1}
        # strip leading zeros so equal values of different widths share a leaf
        bits = t[2]
        n = len(bits)
        while n > 1 and bits[n - 1] == 0:
            n -= 1
        leaf = ('opq', n, 'bv', tuple(bits[:n]))
        return 0, {leaf: 1}
    if k == 'atom':
        return 0, {('opq', 1, 'atom', t[1]): 1}
    raise Unsupported('lin_of %r' % (t,))


def lin_key(c0, terms):
    return (c0, tuple(sorted(((l, c) for l, c in terms.items() if c != 0), key=lambda x: repr(x[0]))))


def leaves_of(t, acc=None):
    """Leaves a term depends on (not descending into opaque payloads, except opq-bv / opq-lin)."""
    if acc is None:
        acc = set()
    k = t[0]
    if k == 'k':
        return acc
    if k == 'bv':
        for b in t[2]:
            if isinstance(b, tuple):
                _leaf_leaves(b[0], acc)
    elif k == 'lin':
        for l, _ in t[3]:
            _leaf_leaves(l, acc)
    elif k == 'atom':
        atom_leaves(t[1], acc)
    return acc


def _leaf_leaves(leaf, acc):
    if leaf[0] == 'opq':
        if leaf[2] == 'bv':
            for b in leaf[3]:
                if isinstance(b, tuple):
                    _leaf_leaves(b[0], acc)
            return
        if leaf[2] == 'lin':
            for l, _ in leaf[3][1]:
                _leaf_leaves(l, acc)
            return
        if leaf[2] == 'atom':
            atom_leaves(leaf[3], acc)
            return
        if leaf[2] in ('trunc', 'wrap'):
            leaves_of(leaf[3], acc)
            return
        if leaf[2] == 'op':
            cached = _OP_LEAVES.get(leaf[3])
            if cached is None:
                s = set()
                pl = OPS[leaf[3]]
                for a in ((pl[2],) if pl[0] == 'tbl' else pl[1:]):
                    leaves_of(a, s)
                cached = frozenset(s)
                _OP_LEAVES[leaf[3]] = cached
            acc |= cached
            return
    acc.add(leaf)


def atom_leaves(atom, acc=None):
    if acc is None:
        acc = set()
    if atom[0] == 'not':
        return atom_leaves(atom[1], acc)
    leaves_of(atom[1], acc)
    leaves_of(atom[2], acc)
    return acc


# ----------------------------------------------------------------------------- evaluation

class CannotEval(Exception):
    pass


def eval_leaf(leaf, env):
    if leaf in env:
        return env[leaf]
    if leaf[0] == 'opq':
        if leaf[2] == 'bv':
            return eval_bits(leaf[3], env)
        if leaf[2] == 'lin':
            c0, terms = leaf[3]
            return (c0 + sum(c * eval_leaf(l, env) for l, c in terms)) & mask(leaf[1])
        if leaf[2] == 'atom':
            return 1 if eval_atom(leaf[3], env) else 0
        if leaf[2] in ('trunc', 'wrap'):
            return eval_term(leaf[3], env) & mask(leaf[1])
        if leaf[2] == 'op' and leaf[3] in OPS:
            pl = OPS[leaf[3]]
            if pl[0] == 'tbl':
                i = eval_term(pl[2], env)
                if 0 <= i < len(pl[1]):
                    return pl[1][i]
                raise CannotEval(leaf)
            if pl[0] in ('BitAnd', 'BitOr', 'BitXor') and len(pl) == 3:
                x, y = eval_term(pl[1], env), eval_term(pl[2], env)
                return {'BitAnd': x & y, 'BitOr': x | y, 'BitXor': x ^ y}[pl[0]] & mask(leaf[1])
    raise CannotEval(leaf)


def eval_bits(bits, env):
    n = 0
    for i, b in enumerate(bits):
        if b == 0:
            continue
        if b == 1:
            n |= 1 << i
        else:
            n |= (((eval_leaf(b[0], env) >> b[1]) & 1) ^ (1 if len(b) == 3 else 0)) << i
    return n


def eval_term(t, env):
    """Exact mathematical value of the term (lin terms are not reduced mod 2**w)."""
    k = t[0]
    if k == 'k':
        return t[2]
    if k == 'bv':
        return eval_bits(t[2], env)
    if k == 'lin':
        return t[2] + sum(c * eval_leaf(l, env) for l, c in t[3])
    if k == 'atom':
        return 1 if eval_atom(t[1], env) else 0
    raise CannotEval(t)


def eval_atom(atom, env):
    if atom[0] == 'not':
        return not eval_atom(atom[1], env)
    a = eval_term(atom[1], env)
    b = eval_term(atom[2], env)
    if atom[0] == 'eq':
        return a == b
    if atom[0] == 'lt':
        return a < b
    raise CannotEval(atom)


# ----------------------------------------------------------------------------- atoms

def mk_not(atom):
    if atom[0] == 'not':
        return atom[1]
    return ('not', atom)


def mk_cmp(op, a, b):
    """op in Eq Ne Lt Le Gt Ge (unsigned). Returns a term of width 1: constant or ('atom', atom)."""
    if op in ('Ne',):
        return t_not(mk_cmp('Eq', a, b))
    if op == 'Gt':
        return mk_cmp('Lt', b, a)
    if op == 'Le':
        return t_not(mk_cmp('Lt', b, a))
    if op == 'Ge':
        return t_not(mk_cmp('Lt', a, b))
    if a[0] == 'atom' or b[0] == 'atom':
        # boolean equality
        if op == 'Eq':
            if is_const(b):
                return a if b[2] == 1 else t_not(a)
            if is_const(a):
                return b if a[2] == 1 else t_not(b)
    if is_const(a) and is_const(b):
        if op == 'Eq':
            return TRUE if a[2] == b[2] else FALSE
        return TRUE if a[2] < b[2] else FALSE
    if op == 'Eq':
        if a == b:
            return TRUE
        if repr(a) > repr(b):
            a, b = b, a
        return ('atom', ('eq', a, b))
    if a == b:
        return FALSE
    return ('atom', ('lt', a, b))


def t_not(t):
    if is_const(t):
        return K(t[1], ~t[2]) if t[1] != 1 else (FALSE if t[2] else TRUE)
    if t[0] == 'atom':
        return ('atom', mk_not(t[1]))
    if width(t) == 1:
        # a 1-bit leaf: express as comparison with 0
        return mk_cmp('Eq', t, FALSE)
    if t[0] in ('bv', 'lin'):
        return mk_bv(width(t), tuple(neg_bit(b) for b in bits_of(t)))
    raise Unsupported('bitwise not of symbolic %r' % (t,))


# ----------------------------------------------------------------------------- bit operations

def neg_bit(b):
    """Complement of a bit: 0 <-> 1, (leaf, k) <-> (leaf, k, 1)."""
    if b == 0:
        return 1
    if b == 1:
        return 0
    if len(b) == 2:
        return (b[0], b[1], 1)
    return (b[0], b[1])


def _and_bit(x, y):
    if x == 0 or y == 0:
        return 0
    if x == 1:
        return y
    if y == 1:
        return x
    if x == y:
        return x
    if x == neg_bit(y):
        return 0
    return None


def _or_bit(x, y):
    if x == 1 or y == 1:
        return 1
    if x == 0:
        return y
    if y == 0:
        return x
    if x == y:
        return x
    if x == neg_bit(y):
        return 1
    return None


def _xor_bit(x, y):
    if x == 0:
        return y
    if y == 0:
        return x
    if x == 1:
        return neg_bit(y)
    if y == 1:
        return neg_bit(x)
    if x == y:
        return 0
    if x == neg_bit(y):
        return 1
    return None


# Opaque operation leaves are hash-consed: the payload (op, a, b) lives in OPS under a content key, so that nested
# opaque expressions stay small tuples (Python neither caches tuple hashes nor shares repr work).
OPS = {}
_OP_LEAVES = {}


def intern_op(payload):
    import hashlib
    key = hashlib.sha1(repr(payload).encode()).hexdigest()[:20]
    OPS[key] = payload
    return key


def size_capped(x, cap=4000):
    """Number of distinct nodes (shared sub-terms counted once) of a nested tuple; counting stops at `cap`."""
    n = 0
    stack = [x]
    seen = set()
    while stack:
        y = stack.pop()
        if isinstance(y, tuple):
            if id(y) in seen:
                continue
            seen.add(id(y))
            n += 1
            if n > cap:
                return n
            stack.extend(y)
    return n


def bitop(op, a, b):
    w = width(a)
    if width(b) != w:
        raise Unsupported('bitop width mismatch')
    if w == 1 and (a[0] == 'atom' or b[0] == 'atom'):
        # boolean connectives on undecided comparisons are kept opaque
        if is_const(a) or is_const(b):
            c, x = (a, b) if is_const(a) else (b, a)
            if op == 'BitAnd':
                return x if c[2] else FALSE
            if op == 'BitOr':
                return TRUE if c[2] else x
            if op == 'BitXor':
                return t_not(x) if c[2] else x
    f = {'BitAnd': _and_bit, 'BitOr': _or_bit, 'BitXor': _xor_bit}[op]
    ba, bb = bits_of(a), bits_of(b)
    out = []
    for x, y in zip(ba, bb):
        r = f(x, y)
        if r is None:
            if size_capped(a, 20000) + size_capped(b, 20000) > 20000:
                raise Unsupported('bitwise expression over symbolic values grows without bound (a checksum or hash computed inside the analysed code?)')
            args = tuple(sorted((a, b), key=repr))
            leaf = ('opq', w, 'op', intern_op((op,) + args))
            return ('bv', w, tuple((leaf, i) for i in range(w)))
        out.append(r)
    return mk_bv(w, out)


def shl(a, n):
    w = width(a)
    bits = bits_of(a)
    if n >= w:
        return K(w, 0)
    return mk_bv(w, (0,) * n + tuple(bits[: w - n]))


def shr(a, n, signed=False):
    w = width(a)
    bits = bits_of(a)
    fill = bits[w - 1] if signed else 0
    if n >= w:
        return mk_bv(w, (fill,) * w)
    return mk_bv(w, tuple(bits[n:]) + (fill,) * n)


def cast_bits(t, w2, signed_src):
    """Bit-level integer cast (used when the linear form is not known to fit)."""
    bits = bits_of(t)
    w1 = len(bits)
    if w2 <= w1:
        return mk_bv(w2, bits[:w2])
    fill = bits[w1 - 1] if signed_src else 0
    return mk_bv(w2, tuple(bits) + (fill,) * (w2 - w1))


def _shifted_lin(t):
    """t = bits [k, w) of the opaque leaf of one linear value, zero-extended (i.e. floor(x / 2^k) when x is in range):
    -> (k, c0, terms dict, w) or None."""
    if t[0] != 'bv':
        return None
    bits = t[2]
    first = bits[0]
    if not (isinstance(first, tuple) and len(first) == 2):
        return None
    leaf, k = first
    if not (isinstance(leaf, tuple) and leaf[0] == 'opq' and leaf[2] == 'lin'):
        return None
    w = leaf[1]
    if k <= 0 or k >= w:
        return None
    n = w - k
    if len(bits) < n:
        return None
    for i in range(n):
        if bits[i] != (leaf, k + i):
            return None
    if any(b != 0 for b in bits[n:]):
        return None
    c0, terms = leaf[3]
    return k, c0, dict(terms), w


# ----------------------------------------------------------------------------- knowledge

class Infeasible(Exception):
    pass


class Know:
    """Path facts: allowed value sets of enumerable leaves, bounds on linear forms, atom set."""

    __slots__ = ('allowed', 'bounds', 'facts', 'factset')

    def __init__(self):
        self.allowed = {}
        self.bounds = {}
        self.facts = []
        self.factset = set()

    def clone(self):
        k = Know.__new__(Know)
        k.allowed = dict(self.allowed)
        k.bounds = dict(self.bounds)
        k.facts = list(self.facts)
        k.factset = set(self.factset)
        return k

    # -- leaf ranges
    def leaf_allowed(self, leaf):
        a = self.allowed.get(leaf)
        if a is not None:
            return a
        d = leaf_domain(leaf)
        if d is not None:
            return frozenset(d)
        return None

    def leaf_range(self, leaf):
        a = self.leaf_allowed(leaf)
        if a is not None:
            if not a:
                raise Infeasible()
            return min(a), max(a)
        if leaf[0] == 'len':
            lo, hi = 0, ISIZE_MAX
        elif leaf[0] == 'opq' and leaf[2] == 'bv':
            lo = hi = 0
            for i, b in enumerate(leaf[3]):
                if b == 1:
                    lo |= 1 << i
                    hi |= 1 << i
                elif b != 0:
                    hi |= 1 << i
        else:
            lo, hi = 0, mask(leaf_width(leaf))
        b = self.bounds.get(((leaf, 1),))
        if b is not None:
            if b[0] is not None:
                lo = max(lo, b[0])
            if b[1] is not None:
                hi = min(hi, b[1])
            if lo > hi:
                raise Infeasible()
        return lo, hi

    # -- linear intervals
    @staticmethod
    def _norm(terms):
        """Normalise the non-constant part: returns (key, mult) with terms == mult * key,
        key having coprime coefficients and a positive first coefficient."""
        items = sorted(((l, c) for l, c in terms.items() if c != 0), key=lambda x: repr(x[0]))
        if not items:
            return (), 1
        from math import gcd
        g = 0
        for _, c in items:
            g = gcd(g, abs(c))
        mult = g if items[0][1] > 0 else -g
        return tuple((l, c // mult) for l, c in items), mult

    def _plain_interval(self, terms):
        lo = hi = 0
        for l, c in terms.items():
            a, b = self.leaf_range(l)
            if c > 0:
                lo += c * a
                hi += c * b
            else:
                lo += c * b
                hi += c * a
        return lo, hi

    def interval(self, c0, terms):
        """Interval of c0 + sum(terms) under the facts."""
        terms = {l: c for l, c in terms.items() if c != 0}
        if not terms:
            return c0, c0
        lo, hi = self._plain_interval(terms)
        key, mult = self._norm(terms)
        b = self.bounds.get(key)
        if b is not None:
            # terms = mult * key, lo_k <= key <= hi_k
            klo, khi = b
            if mult > 0:
                blo = klo * mult if klo is not None else None
                bhi = khi * mult if khi is not None else None
            else:
                blo = khi * mult if khi is not None else None
                bhi = klo * mult if klo is not None else None
            if blo is not None:
                lo = max(lo, blo)
            if bhi is not None:
                hi = min(hi, bhi)
        # one-step combination with each relational bound R (lo_R <= R <= hi_R):
        # e = sgn*R + (e - sgn*R); the remainder is bounded by plain leaf ranges.
        if len(self.bounds) <= 64:
            tl = set(terms)
            for rkey, (rlo, rhi) in self.bounds.items():
                if rkey == key or len(rkey) < 2:
                    continue
                if not any(l in tl for l, _ in rkey):
                    continue
                for sgn in (1, -1):
                    rest = dict(terms)
                    for l, c in rkey:
                        rest[l] = rest.get(l, 0) - c * sgn
                    rest = {l: c for l, c in rest.items() if c != 0}
                    plo, phi = self._plain_interval(rest)
                    a, b2 = (rlo, rhi) if sgn > 0 else ((-rhi if rhi is not None else None), (-rlo if rlo is not None else None))
                    if a is not None:
                        lo = max(lo, plo + a)
                    if b2 is not None:
                        hi = min(hi, phi + b2)
        return c0 + lo, c0 + hi

    def _add_bound(self, c0, terms, lo=None, hi=None):
        """Record lo <= c0 + sum(terms) <= hi."""
        terms = {l: c for l, c in terms.items() if c != 0}
        if not terms:
            if (lo is not None and c0 < lo) or (hi is not None and c0 > hi):
                raise Infeasible()
            return
        if lo is not None:
            lo -= c0
        if hi is not None:
            hi -= c0
        key, mult = self._norm(terms)
        # lo <= mult * key <= hi
        if mult < 0:
            lo, hi = (-hi if hi is not None else None), (-lo if lo is not None else None)
        m = abs(mult)
        if m != 1:
            if lo is not None:
                lo = -((-lo) // m)      # ceil
            if hi is not None:
                hi = hi // m            # floor
        if len(key) == 1 and key[0][1] == 1:
            leaf = key[0][0]
            a = self.leaf_allowed(leaf)
            if a is not None:
                na = frozenset(v for v in a if (lo is None or v >= lo) and (hi is None or v <= hi))
                if not na:
                    raise Infeasible()
                self.allowed[leaf] = na
                return
        olo, ohi = self.bounds.get(key, (None, None))
        if lo is not None:
            olo = lo if olo is None else max(olo, lo)
        if hi is not None:
            ohi = hi if ohi is None else min(ohi, hi)
        if olo is not None and ohi is not None and olo > ohi:
            raise Infeasible()
        self.bounds[key] = (olo, ohi)
        # feasibility against plain ranges
        plo, phi = self._plain_interval(dict(key))
        if (olo is not None and olo > phi) or (ohi is not None and ohi < plo):
            raise Infeasible()

    # -- deciding
    def decide(self, atom):
        """True / False / None."""
        neg = False
        while atom[0] == 'not':
            neg = not neg
            atom = atom[1]
        r = self._decide_pos(atom)
        if r is None:
            return None
        return (not r) if neg else r

    def _decide_pos(self, atom):
        if atom in self.factset:
            return True
        if ('not', atom) in self.factset:
            return False
        op, a, b = atom
        ls = atom_leaves(atom)
        # enumeration over a single enumerable leaf
        if len(ls) == 1:
            (leaf,) = ls
            allowed = self.leaf_allowed(leaf)
            if allowed is not None and len(allowed) <= 65536:
                try:
                    seen_t = seen_f = False
                    for v in allowed:
                        if eval_atom(atom, {leaf: v}):
                            seen_t = True
                        else:
                            seen_f = True
                        if seen_t and seen_f:
                            return None
                    if seen_t and not seen_f:
                        return True
                    if seen_f and not seen_t:
                        return False
                    raise Infeasible()
                except CannotEval:
                    pass
        # linear reasoning
        try:
            ca, ta = lin_of(a)
            cb, tb = lin_of(b)
        except Unsupported:
            return None
        d = dict(ta)
        for l, c in tb.items():
            d[l] = d.get(l, 0) - c
        lo, hi = self.interval(ca - cb, d)
        if op == 'eq':
            if lo == 0 and hi == 0:
                return True
            if lo > 0 or hi < 0:
                return False
        else:  # lt: a - b < 0
            if hi < 0:
                return True
            if lo >= 0:
                return False
        return None

    def assume(self, atom):
        """Add a fact. Raises Infeasible if it contradicts what is known."""
        d = self.decide(atom)
        if d is True:
            return
        if d is False:
            raise Infeasible()
        self.facts.append(atom)
        self.factset.add(atom)
        neg = False
        pos = atom
        while pos[0] == 'not':
            neg = not neg
            pos = pos[1]
        op, a, b = pos
        ls = atom_leaves(pos)
        if len(ls) == 1:
            (leaf,) = ls
            allowed = self.leaf_allowed(leaf)
            if allowed is not None and len(allowed) <= 65536:
                try:
                    na = frozenset(v for v in allowed if eval_atom(pos, {leaf: v}) != neg)
                    if not na:
                        raise Infeasible()
                    self.allowed[leaf] = na
                    return
                except CannotEval:
                    pass
        # floor(x / 2^k) compared with a constant, x linear (`x >> 8 == 0`, `x / 256 != 0`): bounds on x itself
        for side, other, flip in ((a, b, False), (b, a, True)):
            sl = _shifted_lin(side)
            if sl is None or not is_const(other):
                continue
            k_, c0_, terms_, w_ = sl
            lo_, hi_ = self.interval(c0_, terms_)
            if lo_ < 0 or hi_ >> w_:
                continue            # the opaque leaf is x mod 2^w, not x
            c_ = other[2]
            if op == 'eq':
                if not neg:
                    self._add_bound(c0_, terms_, c_ << k_, ((c_ + 1) << k_) - 1)
                elif c_ == 0:
                    self._add_bound(c0_, terms_, 1 << k_, None)
            else:
                # op is '<': side < other (flip: other < side)
                if not flip:
                    if not neg:
                        self._add_bound(c0_, terms_, None, (c_ << k_) - 1)
                    else:
                        self._add_bound(c0_, terms_, c_ << k_, None)
                else:
                    if not neg:
                        self._add_bound(c0_, terms_, (c_ + 1) << k_, None)
                    else:
                        self._add_bound(c0_, terms_, None, ((c_ + 1) << k_) - 1)
            return
        try:
            ca, ta = lin_of(a)
            cb, tb = lin_of(b)
        except Unsupported:
            return
        dd = dict(ta)
        for l, c in tb.items():
            dd[l] = dd.get(l, 0) - c
        c0 = ca - cb
        if op == 'eq':
            if not neg:
                self._add_bound(c0, dd, 0, 0)
            else:
                # d != 0: tighten when 0 is an end point of what is known about d
                lo, hi = self.interval(c0, dd)
                if lo == 0:
                    self._add_bound(c0, dd, 1, None)
                elif hi == 0:
                    self._add_bound(c0, dd, None, -1)
        else:
            if not neg:
                self._add_bound(c0, dd, None, -1)
            else:
                self._add_bound(c0, dd, 0, None)


# ----------------------------------------------------------------------------- printing

def show_leaf(leaf):
    k = leaf[0]
    if k == 'in':
        return show_name(leaf[1])
    if k == 'len':
        return 'len(%s)' % show_name(leaf[1])
    if k == 'pec':
        return 'PEC(%s)' % show_peckey(leaf[1])
    if k == 'opq':
        if leaf[2] == 'bv':
            return show_term(('bv', leaf[1], leaf[3]))
        if leaf[2] == 'lin':
            return 'wrap%d(%s)' % (leaf[1], show_term(('lin', leaf[1], leaf[3][0], leaf[3][1])))
        if leaf[2] == 'atom':
            return '[%s]' % show_atom(leaf[3])
        if leaf[2] in ('trunc', 'wrap'):
            return '%s%d(%s)' % (leaf[2], leaf[1], show_term(leaf[3]))
        if leaf[2] == 'op':
            pl = OPS.get(leaf[3])
            if pl is None:
                return 'op#%s' % leaf[3][:6]
            if pl[0] == 'tbl':
                return 'table%d[%s]' % (len(pl[1]), show_term(pl[2]))
            return '%s(%s)' % (pl[0], ', '.join(show_term(a) for a in pl[1:]))
        return 'opq:%s' % (leaf[2],)
    return repr(leaf)


def show_name(name):
    if isinstance(name, str):
        return name
    out = ''
    for p in name:
        if isinstance(p, str):
            out += ('.' if out else '') + p
        elif isinstance(p, int):
            out += '[%d]' % p
        elif isinstance(p, tuple) and p and p[0] in ('k', 'bv', 'lin'):
            out += '[%s]' % show_term(p)
        else:
            out += '[%r]' % (p,)
    return out


def show_peckey(key):
    if key[0] == 'in':
        return '%s[%s..%s]' % (show_name(key[1]), show_term(key[2]), show_term(key[3]))
    if key[0] == 'cells':
        return 'cells[%d]' % len(key[1])
    if key[0] == 'segs':
        return '%s[%s..%s] (%d writes)' % (key[1], show_term(key[2]), show_term(key[3]), len(key[4]))
    return key[0]


def show_term(t):
    k = t[0]
    if k == 'k':
        return '0x%02X' % t[2] if t[1] <= 8 else str(t[2])
    if k == 'lin':
        parts = []
        for l, c in t[3]:
            s = show_leaf(l)
            parts.append(s if c == 1 else ('-' + s if c == -1 else '%d*%s' % (c, s)))
        if t[2] or not parts:
            parts.append(str(t[2]))
        return ' + '.join(parts).replace('+ -', '- ')
    if k == 'bv':
        leaf = _zext_leaf(t[2])
        if leaf is not None:
            return show_leaf(leaf)
        # group runs
        bits = t[2]
        out = []
        i = len(bits) - 1
        while i >= 0:
            b = bits[i]
            if isinstance(b, tuple):
                j = i
                while j - 1 >= 0 and isinstance(bits[j - 1], tuple) and bits[j - 1][0] == b[0] and bits[j - 1][1] == bits[j][1] - 1 and len(bits[j - 1]) == len(b):
                    j -= 1
                hi_k, lo_k = b[1], bits[j][1]
                neg = '~' if len(b) == 3 else ''
                out.append('%s%s[%d:%d]@%d' % (neg, show_leaf(b[0]), hi_k, lo_k, j) if hi_k != lo_k else '%s%s[%d]@%d' % (neg, show_leaf(b[0]), hi_k, j))
                i = j - 1
            else:
                j = i
                while j - 1 >= 0 and not isinstance(bits[j - 1], tuple):
                    j -= 1
                out.append(''.join(str(bits[x]) for x in range(i, j - 1, -1)) + 'b@%d' % j)
                i = j - 1
        return '{' + ' '.join(out) + '}'
    if k == 'atom':
        return '[%s]' % show_atom(t[1])
    return repr(t)


def show_atom(atom):
    if atom[0] == 'not':
        inner = atom[1]
        if inner[0] == 'eq':
            return '%s != %s' % (show_term(inner[1]), show_term(inner[2]))
        if inner[0] == 'lt':
            return '%s >= %s' % (show_term(inner[1]), show_term(inner[2]))
        return 'not(%s)' % show_atom(inner)
    if atom[0] == 'eq':
        return '%s == %s' % (show_term(atom[1]), show_term(atom[2]))
    if atom[0] == 'lt':
        return '%s < %s' % (show_term(atom[1]), show_term(atom[2]))
    return repr(atom)
