"""Run the mirdump driver on /repo's current working tree and return the fact file.

The fact file is keyed by a hash of the driver binary, the flags and the content of every
file cargo compiles (Cargo.toml, Cargo.lock, src/**), so the checks of one tree share one
extraction while any edit to /repo forces a new one.  Extraction uses a fresh target
directory (cargo's freshness cache would otherwise skip the wrapper) that is removed at once.
"""
import fcntl
import hashlib
import os
import shutil
import subprocess
import sys
import tempfile

VERIF = os.path.dirname(os.path.dirname(os.path.abspath(__file__)))
REPO = os.environ.get('LIBMCTP_REPO', '/repo')
CACHE = os.path.join(VERIF, '.cache')
DRIVER = os.path.join(VERIF, 'mirdump', 'target', 'release', 'mirdump')


def tree_files(repo):
    out = []
    for name in ('Cargo.toml', 'Cargo.lock'):
        p = os.path.join(repo, name)
        if os.path.exists(p):
            out.append(p)
    for root, dirs, files in os.walk(os.path.join(repo, 'src')):
        dirs.sort()
        for f in sorted(files):
            out.append(os.path.join(root, f))
    return out


def tree_hash(repo, extra=''):
    h = hashlib.sha256()
    for p in tree_files(repo):
        h.update(os.path.relpath(p, repo).encode())
        h.update(b'\0')
        with open(p, 'rb') as f:
            h.update(f.read())
        h.update(b'\0')
    if os.path.exists(DRIVER):
        with open(DRIVER, 'rb') as f:
            h.update(hashlib.sha256(f.read()).digest())
    h.update(extra.encode())
    return h.hexdigest()[:24]


def sysroot():
    return subprocess.check_output(['rustc', '+nightly', '--print', 'sysroot'], text=True).strip()


def ensure_driver():
    if os.path.exists(DRIVER):
        return
    env = dict(os.environ, CARGO_NET_OFFLINE='true')
    subprocess.check_call(['cargo', '+nightly', 'build', '--release', '--offline'],
                          cwd=os.path.join(VERIF, 'mirdump'), env=env,
                          stdout=subprocess.DEVNULL, stderr=subprocess.DEVNULL)


def extract(profile='dev', repo=None, crate='libmctp', always_encode_mir=False, quiet=True):
    """-> (path of fact file, tree hash). profile: 'dev' | 'release'."""
    repo = repo or REPO
    ensure_driver()
    flags = '-Zmir-opt-level=0 -Awarnings' + (' -Zalways-encode-mir' if always_encode_mir else '')
    th = tree_hash(repo, profile + flags + crate)
    os.makedirs(CACHE, exist_ok=True)
    out = os.path.join(CACHE, 'mir-%s-%s.json' % (th, profile))
    if os.path.exists(out) and os.path.getsize(out) > 0:
        return out, th
    lock = open(os.path.join(CACHE, 'extract.lock'), 'w')
    fcntl.flock(lock, fcntl.LOCK_EX)
    try:
        if os.path.exists(out) and os.path.getsize(out) > 0:
            return out, th
        tmp = tempfile.mkdtemp(prefix='mctpsa-')
        try:
            env = dict(os.environ)
            env.update({
                'LD_LIBRARY_PATH': sysroot() + '/lib',
                'RUSTFLAGS': flags,
                'RUSTC_WORKSPACE_WRAPPER': DRIVER,
                'MIRDUMP_OUT': os.path.join(tmp, 'mir.json'),
                'MIRDUMP_CRATE': crate,
                'CARGO_TARGET_DIR': os.path.join(tmp, 'target'),
                'CARGO_NET_OFFLINE': 'true',
            })
            cmd = ['cargo', '+nightly', 'check', '--offline', '--lib']
            if profile == 'release':
                cmd.append('--release')
            r = subprocess.run(cmd, cwd=repo, env=env, stdout=subprocess.PIPE, stderr=subprocess.STDOUT, text=True)
            if r.returncode != 0:
                sys.stderr.write(r.stdout)
                raise RuntimeError('CHECKER-ERROR: cargo check of %s failed (the tree does not compile)' % repo)
            src = os.path.join(tmp, 'mir.json')
            if not os.path.exists(src) or os.path.getsize(src) == 0:
                sys.stderr.write(r.stdout)
                raise RuntimeError('CHECKER-ERROR: the driver produced no fact file (wrapper skipped?)')
            shutil.move(src, out + '.tmp')
            os.replace(out + '.tmp', out)
        finally:
            shutil.rmtree(tmp, ignore_errors=True)
        # keep the cache small: drop fact files of other trees
        keep = th
        for f in os.listdir(CACHE):
            if (f.startswith('mir-') or f.startswith('leaves-')) and keep not in f:
                p = os.path.join(CACHE, f)
                try:
                    if os.path.getmtime(p) < os.path.getmtime(out) - 3600:
                        os.remove(p)
                except OSError:
                    pass
        return out, th
    finally:
        fcntl.flock(lock, fcntl.LOCK_UN)
        lock.close()


if __name__ == '__main__':
    p, h = extract(sys.argv[1] if len(sys.argv) > 1 else 'dev')
    print(p, h)
