#!/usr/bin/env python3
"""Pretty-printer for mirdump facts (debugging aid)."""
import json, sys

def ty(t):
    k = t['k']
    if k == 'int': return t['name']
    if k in ('bool', 'char', 'unit', 'never', 'str'): return {'unit': '()', 'never': '!'}.get(k, k)
    if k == 'ref': return '&' + ('mut ' if t['mut'] else '') + ty(t['to'])
    if k == 'ptr': return '*' + ('mut ' if t['mut'] else 'const ') + ty(t['to'])
    if k == 'slice': return '[' + ty(t['elem']) + ']'
    if k == 'array': return '[%s; %s]' % (ty(t['elem']), t['len'])
    if k == 'adt': return t['id']
    if k == 'tuple': return '(' + ', '.join(ty(e) for e in t['elems']) + ')'
    if k == 'fndef': return 'fn{' + t['path'] + '}'
    return k + ':' + t.get('dbg', '')

def place(p):
    s = '_%d' % p['local']
    for e in p['proj']:
        k = e['k']
        if k == 'deref': s = '(*%s)' % s
        elif k == 'field': s = '%s.%d' % (s, e['i'])
        elif k == 'index': s = '%s[_%d]' % (s, e['local'])
        elif k == 'downcast': s = '(%s as v%d)' % (s, e['variant'])
        elif k == 'constant_index': s = '%s[%s%d of %d]' % (s, '-' if e['from_end'] else '', e['offset'], e['min_length'])
        elif k == 'subslice': s = '%s[%d:%s%d]' % (s, e['from'], '-' if e['from_end'] else '', e['to'])
        else: s += '?' + k
    return s

def const(c):
    k = c['k']
    if k == 'int': return 'const %s_%s' % (c['v'], ty(c['ty']))
    if k == 'fn': return 'fn ' + (c['callee']['key'] or c['callee']['path'])
    if k == 'zst': return 'zst ' + ty(c['ty'])
    if k == 'str': return 'const %r' % c['v']
    if k == 'promoted': return 'promoted[%d]' % c['idx']
    return 'const?' + c.get('dbg', '')

def op(o):
    if o['k'] in ('copy', 'move'): return o['k'] + ' ' + place(o['place'])
    if o['k'] == 'const': return const(o['c'])
    return '?' + o.get('dbg', '')

def rv(r):
    k = r['k']
    if k == 'use': return op(r['op'])
    if k == 'repeat': return '[%s; %s]' % (op(r['op']), r['count'])
    if k == 'ref': return '&%s %s' % (r['bk'], place(r['place']))
    if k == 'rawptr': return '&raw %s %s' % (r['rk'], place(r['place']))
    if k == 'cast': return '%s as %s (%s)' % (op(r['op']), ty(r['to']), r['ck'])
    if k == 'binop': return '%s(%s, %s)' % (r['op'], op(r['a']), op(r['b']))
    if k == 'unop': return '%s(%s)' % (r['op'], op(r['a']))
    if k == 'discriminant': return 'discriminant(%s)' % place(r['place'])
    if k == 'aggregate':
        ak = r['ak']
        head = ak['k'] if ak['k'] != 'adt' else '%s::v%d' % (ak['path'], ak['variant'])
        return '%s{%s}' % (head, ', '.join(op(o) for o in r['ops']))
    if k == 'copy_for_deref': return 'deref_copy ' + place(r['place'])
    return '?' + r.get('dbg', '')

def term(t):
    k = t['k']
    if k == 'goto': return 'goto bb%d' % t['target']
    if k == 'switch': return 'switch(%s) [%s, otherwise: bb%d]' % (op(t['discr']), ', '.join('%s: bb%d' % (v, b) for v, b in t['cases']), t['otherwise'])
    if k == 'call': return '%s = %s(%s) -> %s' % (place(t['dest']), t['callee']['key'] or ('<no-mir> ' + t['callee']['path']), ', '.join(op(a) for a in t['args']), 'bb%s' % t['target'] if t['target'] is not None else 'diverge')
    if k == 'assert': return 'assert(%s == %s, %s(%s)) -> bb%d' % (op(t['cond']), t['expected'], t['kind'], ', '.join(op(o) for o in t['ops']), t['target'])
    if k == 'drop': return 'drop(%s) -> bb%d' % (place(t['place']), t['target'])
    return k

def show(inst, key):
    b = inst['body']
    print('fn', key, ' argc=%d' % b['argc'], inst['vis'], inst['span']['at'])
    names = dict((a, n) for a, n in b['names'])
    for i, t in enumerate(b['locals']):
        print('   let _%d: %s;%s' % (i, ty(t), ('  // ' + names[i]) if i in names else ''))
    for i, blk in enumerate(b['blocks']):
        if blk['cleanup']: continue
        print(' bb%d:' % i)
        for s in blk['stmts']:
            if s['k'] == 'assign': print('    %s = %s;' % (place(s['place']), rv(s['rv'])))
            else: print('    ?', s)
        print('    ' + term(blk['term']), '   //', blk['span']['at'])

if __name__ == '__main__':
    d = json.load(open(sys.argv[1]))
    for key, inst in d['instances'].items():
        if any(a in key for a in sys.argv[2:]):
            show(inst, key); print()
