"""Self-test edits (DESIGN.md Appendix F). Each must still compile. kind: 'break' | 'neutral'."""
S = 'src/smbus.rs'
EDITS = [
    dict(name='C09/C01 secured arm payload one short', kind='break', checks=['C09'], edits=[
        dict(file=S, old="Ok((MessageType::SecuredMessages, &packet[9..(packet_len)]))", new="Ok((MessageType::SecuredMessages, &packet[9..(packet_len - 1)]))")]),
    dict(name='C09 drop reserved-bits test', kind='break', checks=['C09'], edits=[
        dict(file='src/base_packet.rs', old="if header.rsvd() != 0x00 {", new="if header.rsvd() != 0x00 && false {")]),
    dict(name='C09 drop IC test', kind='break', checks=['C09'], edits=[
        dict(file='src/base_packet.rs', old="if header.ic() != 0x00 {", new="if header.ic() != 0x00 && false {")]),
    dict(name='C09 request length table resolve EID 1->2', kind='break', checks=['C09'], edits=[
        dict(file='src/mctp_traits.rs', old="CommandCode::ResolveEndpointID => 1,", new="CommandCode::ResolveEndpointID => 2,")]),
    dict(name='C09 wrong error variant in PCI arm', kind='break', checks=['C09'], edits=[
        dict(file=S, old="""                    return Err((
                        MessageType::VendorDefinedPCI,
                        DecodeError::ControlMessage(ControlMessageError::InvalidPEC),""", new="""                    return Err((
                        MessageType::VendorDefinedPCI,
                        DecodeError::ControlMessage(ControlMessageError::InvalidRequestDataLength),""")]),
    dict(name='C09/C02 delete IANA PEC comparison', kind='break', checks=['C09', 'C02'], edits=[
        dict(file=S, old="""                if pec != calculated_pec {
                    return Err((
                        MessageType::VendorDefinedIANA,""", new="""                if pec != calculated_pec && packet.is_empty() {
                    return Err((
                        MessageType::VendorDefinedIANA,""")]),
    dict(name='C09 sixth accepted type', kind='break', checks=['C09', 'C19'], edits=[
        dict(file='src/base_packet.rs', old="            0x7F => MessageType::VendorDefinedIANA,", new="            0x7F => MessageType::VendorDefinedIANA,\n            0x7D => MessageType::VendorDefinedIANA,")]),
]
