"""Self-test edits (DESIGN.md Appendix F). Each must still compile. kind: 'break' | 'neutral'."""
S = 'src/smbus.rs'
EDITS = [
    dict(name='C09/C01 secured arm payload one short', kind='break', checks=['C09'], edits=[
        dict(file=S, old="Ok((MessageType::SecuredMessages, &packet[9..(packet_len)]))", new="Ok((MessageType::SecuredMessages, &packet[9..(packet_len - 1)]))")]),
    dict(name='C09 drop reserved-bits test', kind='break', checks=['C09'], edits=[
        dict(file='src/base_packet.rs', old="if header.rsvd() != 0x00 {", new="if header.rsvd() != 0x00 && false {")]),
    dict(name='C09 drop IC test', kind='break', checks=['C09'], edits=[
        dict(file='src/base_packet.rs', old="if header.ic() != 0x00 {", new="if header.ic() != 0x00 && false {")]),
    dict(name='C09 request length table resolve EID 1->2', kind='break', checks=['C09'], edits=[
        dict(file='src/mctp_traits.rs', old="CommandCode::ResolveEndpointID => 1,", new="CommandCode::ResolveEndpointID => 2,")]),
    dict(name='C09 wrong error variant in PCI arm', kind='break', checks=['C09'], edits=[
        dict(file=S, old="""                    return Err((
                        MessageType::VendorDefinedPCI,
                        DecodeError::ControlMessage(ControlMessageError::InvalidPEC),""", new="""                    return Err((
                        MessageType::VendorDefinedPCI,
                        DecodeError::ControlMessage(ControlMessageError::InvalidRequestDataLength),""")]),
    dict(name='C09/C02 delete IANA PEC comparison', kind='break', checks=['C09', 'C02'], edits=[
        dict(file=S, old="""                if pec != calculated_pec {
                    return Err((
                        MessageType::VendorDefinedIANA,""", new="""                if pec != calculated_pec && packet.is_empty() {
                    return Err((
                        MessageType::VendorDefinedIANA,""")]),
    dict(name='C09 sixth accepted type', kind='break', checks=['C09', 'C19'], edits=[
        dict(file='src/base_packet.rs', old="            0x7F => MessageType::VendorDefinedIANA,", new="            0x7F => MessageType::VendorDefinedIANA,\n            0x7D => MessageType::VendorDefinedIANA,")]),
]

T = 'src/mctp_traits.rs'
RQ = 'src/smbus_request.rs'
RS = 'src/smbus_response.rs'
P = 'src/smbus_proto.rs'
B = 'src/base_packet.rs'
CP = 'src/control_packet.rs'
EDITS += [
    dict(name='C01 request length table resolve EID 1->2', kind='break', checks=['C01'], edits=[
        dict(file=T, old="CommandCode::ResolveEndpointID => 1,", new="CommandCode::ResolveEndpointID => 2,")]),
    dict(name='C01 secured arm payload one short', kind='break', checks=['C01'], edits=[
        dict(file=S, old="Ok((MessageType::SecuredMessages, &packet[9..(packet_len)]))", new="Ok((MessageType::SecuredMessages, &packet[9..(packet_len - 1)]))")]),
    dict(name='C02 delete PCI PEC comparison', kind='break', checks=['C02'], edits=[
        dict(file=S, old="""                if pec != calculated_pec {
                    #[cfg(test)]
                    println!("pec {:#x} != calculated_pec {:#x}", pec, calculated_pec);
                    return Err((
                        MessageType::VendorDefinedPCI,""", new="""                if pec != calculated_pec && packet_len == 0 {
                    #[cfg(test)]
                    println!("pec {:#x} != calculated_pec {:#x}", pec, calculated_pec);
                    return Err((
                        MessageType::VendorDefinedPCI,""")]),
    dict(name='C02 control path compares PEC of a shorter view', kind='break', checks=['C02'], edits=[
        dict(file=S, old="        let calculated_pec = pec(&packet[0..(packet.len() - 1)]);\n\n        match body_header.msg_type().into() {", new="        let calculated_pec = pec(&packet[1..(packet.len() - 1)]);\n\n        match body_header.msg_type().into() {")]),
    dict(name='C02/C13 set_eid hoisted above decode', kind='break', checks=['C02', 'C13'], edits=[
        dict(file=S, old="        let (msg_type, payload) = self.decode_packet(packet)?;\n\n        match msg_type {", new="        if packet.len() > 13 && packet[10] == 0x01 {\n            self.get_response().set_eid(packet[12]);\n        }\n        let (msg_type, payload) = self.decode_packet(packet)?;\n\n        match msg_type {")]),
    dict(name='C03 pec over a capped prefix', kind='break', checks=['C03'], edits=[
        dict(file=P, old="buf[size] = pec(&buf[0..size]);", new="buf[size] = pec(&buf[0..size.min(64)]);")]),
    dict(name='C03 pec skips the destination byte', kind='break', checks=['C03'], edits=[
        dict(file=P, old="buf[size] = pec(&buf[0..size]);", new="buf[size] = pec(&buf[1..size]);")]),
    dict(name='C04 dest address masked to 6 bits', kind='break', checks=['C04'], edits=[
        dict(file=T, old="smbus_header.set_dest_slave_addr(dest_addr);", new="smbus_header.set_dest_slave_addr(dest_addr & 0x3F);")]),
    dict(name='C04/C17 probe adds 3', kind='break', checks=['C04', 'C17'], edits=[
        dict(file=S, old="return Ok(smbus_header.byte_count() as usize + 4);", new="return Ok(smbus_header.byte_count() as usize + 3);")]),
    dict(name='C04 byte count cast before subtract (D14 back)', kind='break', checks=['C04', 'C16', 'C10'], edits=[
        dict(file=P, old="self.smbus_header.set_byte_count((self.len() - 4) as u8);", new="self.smbus_header.set_byte_count(self.len() as u8 - 4);")]),
    dict(name='C05 source EID set to the destination', kind='break', checks=['C05'], edits=[
        dict(file=T, old="base_header.set_source_endpoint_id(self.get_address());", new="base_header.set_source_endpoint_id(dest_addr);")]),
    dict(name='C05/C08 IANA writer uses the PCI type', kind='break', checks=['C05', 'C08'], edits=[
        dict(file=T, old="MCTPMessageBodyHeader::new(false, MessageType::VendorDefinedIANA);", new="MCTPMessageBodyHeader::new(false, MessageType::VendorDefinedPCI);")]),
    dict(name='C06 resolve_uuid never stores entry_handle', kind='break', checks=['C06'], edits=[
        dict(file=RQ, old="        message_data[16] = entry_handle;\n", new="        let _ = entry_handle;\n")]),
    dict(name='C06 get_routing_table_entries sends 0', kind='break', checks=['C06'], edits=[
        dict(file=RQ, old="let message_data: [u8; 1] = [entry_handle];", new="let _ = entry_handle;\n        let message_data: [u8; 1] = [0];")]),
    dict(name='C06 allocate swaps pool size and start', kind='break', checks=['C06'], edits=[
        dict(file=RQ, old="[operation as u8, pool_size, starting_eid]", new="[operation as u8, starting_eid, pool_size]")]),
    dict(name='C07 endpoint type shifted by 5', kind='break', checks=['C07'], edits=[
        dict(file=RS, old="((endpoint_type as u8) << 4) | endpoint_id_type as u8,", new="((endpoint_type as u8) << 5) | endpoint_id_type as u8,")]),
    dict(name='C07 rejected flag in bit 5', kind='break', checks=['C07'], edits=[
        dict(file=RS, old="message_data[1] |= 1 << 4;", new="message_data[1] |= 1 << 5;")]),
    dict(name='C07 version entry 1.3.0', kind='break', checks=['C07', 'C15'], edits=[
        dict(file=RS, old="[completion_code as u8, 1, 0xF1, 0xF3, 0xF1, 0x00]", new="[completion_code as u8, 1, 0xF1, 0xF3, 0xF0, 0x00]")]),
    dict(name='C08 PCI vendor ID bytes swapped', kind='break', checks=['C08'], edits=[
        dict(file=RQ, old="PCIMessageFormat::new(format.data as u16);", new="PCIMessageFormat::new((format.data as u16).swap_bytes());")]),
    dict(name='C08 third accepted format', kind='break', checks=['C08', 'C16'], edits=[
        dict(file=RQ, old="} else if format.format == 1 {\n            /* IANA message format */", new="} else if format.format == 1 || format.format == 3 {\n            /* IANA message format */")]),
    dict(name='C10 get_length guard < 2', kind='break', checks=['C10', 'C17'], edits=[
        dict(file=S, old="        if packet.len() < 3 {\n            return Err((MessageType::Invalid, DecodeError::Unknown));\n        }\n\n        let mut smbus_header_buf: [u8; 4] = [0; 4];\n        smbus_header_buf[0..3]", new="        if packet.len() < 2 {\n            return Err((MessageType::Invalid, DecodeError::Unknown));\n        }\n\n        let mut smbus_header_buf: [u8; 4] = [0; 4];\n        smbus_header_buf[0..3]")]),
    dict(name='C10 header guard < 9', kind='break', checks=['C10'], edits=[
        dict(file=S, old="if packet.len() < 10 {", new="if packet.len() < 9 {")]),
    dict(name='C11 remove the SPDM arm again', kind='break', checks=['C11'], edits=[
        dict(file=S, old="MessageType::SpdmOverMctp | MessageType::SecuredMessages => {\n                // Not a control message", new="MessageType::SecuredMessages => {\n                // Not a control message")]),
    dict(name='C11 returns a re-sliced payload', kind='break', checks=['C11'], edits=[
        dict(file=S, old="            MessageType::VendorDefinedPCI => {\n                // Vendor defined, we don't know what to do\n                Ok(((msg_type, payload), None))", new="            MessageType::VendorDefinedPCI => {\n                // Vendor defined, we don't know what to do\n                Ok(((msg_type, &payload[payload.len().min(2)..]), None))")]),
    dict(name='C12 UUID arm answers to the destination EID', kind='break', checks=['C12'], edits=[
        dict(file=S, old="""                                .get_endpoint_uuid(
                                    CompletionCode::Success,
                                    base_header.source_endpoint_id(),""", new="""                                .get_endpoint_uuid(
                                    CompletionCode::Success,
                                    base_header.dest_endpoint_id(),""")]),
    dict(name='C13 request half not updated', kind='break', checks=['C13'], edits=[
        dict(file=S, old="                                self.get_request().set_eid(payload[1]);\n", new="")]),
    dict(name='C13 Force no longer assigns', kind='break', checks=['C13'], edits=[
        dict(file=S, old="""                            if payload[0] == MCTPSetEndpointIDOperations::SetEID as u8
                                || payload[0] == MCTPSetEndpointIDOperations::ForceEID as u8
                            {""", new="""                            if payload[0] == MCTPSetEndpointIDOperations::SetEID as u8 {""")]),
    dict(name='C13 Get Endpoint ID handler writes the EID', kind='break', checks=['C13'], edits=[
        dict(file=S, old="                        CommandCode::GetEndpointID => {\n                            len = self", new="                        CommandCode::GetEndpointID => {\n                            self.get_request().set_eid(base_header.source_endpoint_id());\n                            len = self")]),
    dict(name='C14 last-set test off by one', kind='break', checks=['C14'], edits=[
        dict(file=S, old="if (payload[0] + 1) == self.vendor_ids.len() as u8 {", new="if (payload[0] + 2) == self.vendor_ids.len() as u8 {")]),
    dict(name='C14 IANA top byte shifted by 16', kind='break', checks=['C14'], edits=[
        dict(file=S, old="                                    (vendor_id.data >> 24) as u8,\n                                    (vendor_id.data >> 16) as u8,", new="                                    (vendor_id.data >> 16) as u8,\n                                    (vendor_id.data >> 16) as u8,")]),
    dict(name='C15/C16 more than 3 types refused', kind='break', checks=['C15', 'C16'], edits=[
        dict(file=RS, old="if supported_msg_types.len() > 30 {", new="if supported_msg_types.len() > 3 {")]),
    dict(name='C15 UUID copied partially', kind='break', checks=['C15'], edits=[
        dict(file=S, old="self.uuid.copy_from_slice(uuid)", new="self.uuid[0..15].copy_from_slice(&uuid[0..15])")]),
    dict(name='C16 EID refusal reduced to 0xFF', kind='break', checks=['C16'], edits=[
        dict(file=RQ, old="if eid == 0xFF || eid == 0x00 {", new="if eid == 0xFF {")]),
    dict(name='C16 writer touches a byte past the packet', kind='break', checks=['C16', 'C03'], edits=[
        dict(file=P, old="        buf[size] = pec(&buf[0..size]);\n        size += 1;\n", new="        buf[size] = pec(&buf[0..size]);\n        size += 1;\n        if buf.len() > size {\n            buf[size] = 0;\n        }\n")]),
    dict(name='C17 probe compares 0x0E', kind='break', checks=['C17'], edits=[
        dict(file=S, old="if smbus_header.command_code() == MCTP_SMBUS_COMMAND_CODE {", new="if smbus_header.command_code() == MCTP_SMBUS_COMMAND_CODE - 1 {")]),
    dict(name='C18 pkt_seq one bit wide', kind='break', checks=['C18'], edits=[
        dict(file=B, old="pub pkt_seq, set_pkt_seq: 27, 26;", new="pub pkt_seq, set_pkt_seq: 27, 27;")]),
    dict(name='C18 instance_id 4 bits', kind='break', checks=['C18'], edits=[
        dict(file=CP, old="pub instance_id, set_instance_id: 7, 3;", new="pub instance_id, set_instance_id: 7, 4;")]),
    dict(name='C19 swap 0x12 and 0x13 arms', kind='break', checks=['C19'], edits=[
        dict(file=CP, old="            0x12 => CommandCode::RequestTXRateLimit,\n            0x13 => CommandCode::UpdateRateLimit,", new="            0x12 => CommandCode::UpdateRateLimit,\n            0x13 => CommandCode::RequestTXRateLimit,")]),
    # ---- neutral edits: every check must stay silent
    dict(name='NEUTRAL packet.len()-1 bound once', kind='neutral', checks=['C01', 'C02', 'C09', 'C10', 'C11'], edits=[
        dict(file=S, old="        let calculated_pec = pec(&packet[0..(packet.len() - 1)]);\n\n        match body_header.msg_type().into() {", new="        let last = packet.len() - 1;\n        let calculated_pec = pec(&packet[0..last]);\n\n        match body_header.msg_type().into() {")]),
    dict(name='NEUTRAL PCI arm rewritten if-eq-else', kind='neutral', checks=['C02', 'C09', 'C11'], edits=[
        dict(file=S, old="""                if pec != calculated_pec {
                    #[cfg(test)]
                    println!("pec {:#x} != calculated_pec {:#x}", pec, calculated_pec);
                    return Err((
                        MessageType::VendorDefinedPCI,
                        DecodeError::ControlMessage(ControlMessageError::InvalidPEC),
                    ));
                }
                Ok((MessageType::VendorDefinedPCI, &packet[9..(packet_len)]))""", new="""                if pec == calculated_pec {
                    Ok((MessageType::VendorDefinedPCI, &packet[9..(packet_len)]))
                } else {
                    Err((
                        MessageType::VendorDefinedPCI,
                        DecodeError::ControlMessage(ControlMessageError::InvalidPEC),
                    ))
                }""")]),
    dict(name='NEUTRAL header setters reordered', kind='neutral', checks=['C03', 'C04', 'C05', 'C06', 'C07', 'C12', 'C16'], edits=[
        dict(file=T, old="        base_header.set_dest_endpoint_id(dest_addr);\n        base_header.set_source_endpoint_id(self.get_address());\n        base_header.set_som(true as u8);\n        base_header.set_eom(true as u8);", new="        base_header.set_eom(true as u8);\n        base_header.set_som(true as u8);\n        base_header.set_source_endpoint_id(self.get_address());\n        base_header.set_dest_endpoint_id(dest_addr);")]),
    dict(name='NEUTRAL payload via absolute re-slicing', kind='neutral', checks=['C01', 'C09', 'C11'], edits=[
        dict(file=S, old="Ok((MessageType::SpdmOverMctp, &packet[9..(packet_len)]))", new="Ok((MessageType::SpdmOverMctp, &(&packet[9..])[..(packet_len - 9)]))")]),
    dict(name='NEUTRAL body array built by element stores', kind='neutral', checks=['C06', 'C16', 'C01'], edits=[
        dict(file=RQ, old="let message_data: [u8; 3] = [operation as u8, pool_size, starting_eid];", new="let mut message_data: [u8; 3] = [0; 3];\n        message_data[2] = starting_eid;\n        message_data[0] = operation as u8;\n        message_data[1] = pool_size;")]),
    dict(name='NEUTRAL PEC helper function', kind='neutral', checks=['C02', 'C09'], edits=[
        dict(file=S, old="""                if pec != calculated_pec {
                    return Err((
                        MessageType::VendorDefinedIANA,""", new="""                if !Self::pec_matches(pec, calculated_pec) {
                    return Err((
                        MessageType::VendorDefinedIANA,"""),
        dict(file=S, old="    /// Get the MCTP control packet\n", new="    fn pec_matches(a: u8, b: u8) -> bool {\n        a == b\n    }\n\n    /// Get the MCTP control packet\n")]),
]
