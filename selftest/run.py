#!/usr/bin/env python3
"""Mutation self-test (development and thorough tier, informational): each edit below is applied to a scratch
copy of /repo's current tree outside /repo and /verif; the copy must still compile; the named check must
report a violation (kind 'break') or stay silent (kind 'neutral'). Scratch copies are removed.

usage: selftest/run.py [name-substring ...]
"""
import os, re, shutil, subprocess, sys, tempfile
V = os.path.dirname(os.path.dirname(os.path.abspath(__file__)))
sys.path.insert(0, os.path.join(V, 'selftest'))
from edits import EDITS


def apply_edit(root, e):
    p = os.path.join(root, e['file'])
    t = open(p).read()
    if t.count(e['old']) < 1:
        return 'skip: anchor not found'
    if e.get('count') and t.count(e['old']) != e['count']:
        return 'skip: anchor count %d != %d' % (t.count(e['old']), e['count'])
    t = t.replace(e['old'], e['new'], 1 if not e.get('all') else -1)
    open(p, 'w').write(t)
    return None


def main():
    sel = sys.argv[1:]
    results = []
    for e in EDITS:
        if sel and not any(s in e['name'] for s in sel):
            continue
        tmp = tempfile.mkdtemp(prefix='mctpsa-selftest-')
        try:
            root = os.path.join(tmp, 'repo')
            shutil.copytree('/repo', root, ignore=shutil.ignore_patterns('target', '.git'))
            skip = None
            for ed in e['edits']:
                skip = skip or apply_edit(root, ed)
            if skip:
                results.append((e['name'], 'SKIP', skip))
                continue
            env = dict(os.environ, LIBMCTP_REPO=root, MCTPSA_OUT=os.path.join(tmp, 'out'))
            outs = []
            verdict = 'OK'
            for pid in e['checks']:
                r = subprocess.run([os.path.join(V, 'check'), pid], env=env, stdout=subprocess.PIPE, stderr=subprocess.STDOUT, text=True)
                fired = 'VIOLATION property=%s' % pid in r.stdout
                err = 'CHECKER-ERROR' in r.stdout
                if e['kind'] == 'break':
                    if not fired:
                        verdict = 'MISSED by %s%s' % (pid, ' (checker error)' if err else '')
                    elif e.get('expect') and e['expect'] not in r.stdout:
                        verdict = 'FIRED-BUT-NOT-NAMED %s' % pid
                else:
                    if fired or err or r.returncode != 0:
                        verdict = 'FALSE-ALARM %s' % pid
                outs.append(r.stdout)
            results.append((e['name'], verdict, ''))
            if verdict != 'OK' or os.environ.get('SELFTEST_VERBOSE'):
                print('-----', e['name'], verdict)
                for o in outs:
                    print('\n'.join(o.splitlines()[:12]))
        finally:
            shutil.rmtree(tmp, ignore_errors=True)
    bad = 0
    for n, v, why in results:
        print('%-60s %s %s' % (n, v, why))
        if v not in ('OK', 'SKIP'):
            bad += 1
    print('%d edits, %d not as expected' % (len(results), bad))
    # restore evidence / out of the real tree: rerun nothing here; callers rerun the checks on /repo
    return 1 if bad else 0


if __name__ == '__main__':
    sys.exit(main())
