#!/usr/bin/env python3
"""Validation of the analyser itself (not a property check): every function of fixtures/idioms whose signature is made
of integers, byte arrays, byte slices and options of those is (1) interpreted abstractly, (2) compiled and called on a few
hundred pseudo-random concrete inputs in a scratch copy of the fixture crate; for each call the leaf whose guard holds for
the input is looked up and its outcome (return value, panic, final content of every `&mut` argument) is evaluated at the
input and compared with what the compiled code did.  A model of a core function that is wrong for some input class, or a
leaf partition that overlaps or has holes, shows up here.  usage: fixture_concrete.py [name-filter] [--n N]"""
import json, os, random, re, shutil, subprocess, sys, tempfile
V = os.path.dirname(os.path.dirname(os.path.abspath(__file__)))
sys.path.insert(0, os.path.join(V, 'engine'))
from extract import extract
from interp import Interp, Program
from entries import default_args
import terms
from terms import mask, CannotEval

CRATE = 'idioms'
N = 160


# ------------------------------------------------------------------------------------------------ parameter kinds
def kind_of(ty):
    """-> a parameter kind descriptor or None when the type is outside what the harness can generate."""
    k = ty['k']
    if k == 'int' and not ty.get('signed'):
        return ('int', ty['bits'], ty.get('name') or {8: 'u8', 16: 'u16', 32: 'u32', 64: 'usize'}[ty['bits']])
    if k == 'bool':
        return ('bool',)
    if k == 'array' and ty['elem']['k'] == 'int' and ty['elem']['bits'] == 8 and not ty['elem'].get('signed'):
        return ('arr', ty['len'])
    def opt_of(t):
        if t['k'] == 'adt' and t.get('id', '').startswith('core::option::Option<'):
            inner = t['id'][len('core::option::Option<'):-1]
            if inner in ('&[u8]', "&'_ [u8]") or re.match(r"^&('\w+ )?\[u8\]$", inner):
                return ('optslice',)
            if inner == 'u8':
                return ('optint', 8)
        return None
    if k == 'adt':
        o = opt_of(ty)
        if o:
            return o + (False,)
    if k == 'ref' and ty['to']['k'] == 'adt' and not ty['mut']:
        o = opt_of(ty['to'])
        if o:
            return o + (True,)
    if k == 'ref':
        to = ty['to']
        if to['k'] == 'array' and to['elem']['k'] == 'int' and to['elem']['bits'] == 8:
            return ('refarr', to['len'], bool(ty['mut']))
        if to['k'] == 'slice' and to['elem']['k'] == 'int' and to['elem']['bits'] == 8:
            return ('slice', bool(ty['mut']))
        if to['k'] == 'slice' and to['elem']['k'] == 'array' and to['elem']['elem']['k'] == 'int' and to['elem']['elem']['bits'] == 8 and not ty['mut']:
            return ('slice_arr', to['elem']['len'])
        if to['k'] == 'array' and to['elem']['k'] == 'array' and to['elem']['elem']['k'] == 'int' and to['elem']['elem']['bits'] == 8 and not ty['mut']:
            return ('refarr_arr', to['len'], to['elem']['len'])
    return None


def rust_ty(kd):
    t = kd[0]
    if t == 'int':
        return kd[2]
    if t == 'bool':
        return 'bool'
    if t == 'arr':
        return '[u8; %d]' % kd[1]
    raise KeyError(kd)


def gen_value(rnd, kd):
    t = kd[0]
    small = [0, 1, 2, 3, 4, 5, 6, 7, 8, 9, 15, 16, 29, 30, 31, 32, 63, 64, 127, 128, 254, 255]
    byte = lambda: rnd.choice(small) if rnd.random() < 0.5 else rnd.randrange(256)
    if t == 'int':
        if kd[1] == 8:
            return byte()
        if rnd.random() < 0.7:
            return rnd.choice(small + [256, 257, 259, 260, 300, 511, 512, 65535])
        return rnd.randrange(1 << min(kd[1], 20))
    if t == 'bool':
        return rnd.randrange(2)
    if t == 'arr':
        return [byte() for _ in range(kd[1])]
    if t == 'refarr':
        return [byte() for _ in range(kd[1])]
    if t == 'slice':
        n = rnd.choice([0, 0, 1, 2, 3, 4, 5, 6, 7, 8, 9, 10, 12, 16, 17, 31, 32, 40, 64, 70])
        return [byte() for _ in range(n)]
    if t == 'optslice':
        if rnd.random() < 0.4:
            return None
        return [byte() for _ in range(rnd.choice([0, 1, 2, 3, 4, 5, 8, 16]))]
    if t == 'optint':
        return None if rnd.random() < 0.3 else byte()
    if t == 'slice_arr':
        n = rnd.choice([0, 1, 2, 3, 4, 7, 8])
        return [[byte() for _ in range(kd[1])] for _ in range(n)]
    if t == 'refarr_arr':
        return [[byte() for _ in range(kd[2])] for _ in range(kd[1])]
    raise KeyError(kd)


def rust_lit(kd, v):
    t = kd[0]
    if t == 'int':
        return '%d' % v
    if t == 'bool':
        return 'true' if v else 'false'
    if t in ('arr', 'refarr', 'slice'):
        return '[%s]' % ', '.join('%du8' % b for b in v)
    if t in ('slice_arr', 'refarr_arr'):
        return '[%s]' % ', '.join('[%s]' % ', '.join('%du8' % b for b in row) for row in v)
    raise KeyError(kd)


# ------------------------------------------------------------------------------------------------ evaluation
class Env(dict):
    """leaf -> concrete value, computed from the concrete arguments on demand."""
    def __init__(self, args):
        super().__init__()
        self.args = args     # name -> (kind, value)

    def lookup(self, leaf):
        if leaf[0] == 'len':
            nm = leaf[1]
            kd, v = self.args[nm[0]]
            if len(nm) == 1:
                return len(v)
            if kd[0] == 'optslice' and nm[1:] == ('Some', '0') and v is not None:
                return len(v)
            raise CannotEval(leaf)
        if leaf[0] == 'in':
            nm = leaf[1]
            kd, v = self.args[nm[0]]
            if kd[0] in ('optslice', 'optint'):
                if nm[1:] == ('#variant',):
                    return 0 if v is None else 1
                if v is None or nm[1:3] != ('Some', '0'):
                    raise CannotEval(leaf)
                nm = nm[:1] + nm[3:]
            for p in nm[1:]:
                if not isinstance(p, int):
                    if isinstance(p, tuple):        # a symbolic index term
                        p = ev_term(p, self)
                    elif p == '0':
                        continue                    # tuple-struct field of a wrapper: not used by the fixture
                    else:
                        raise CannotEval(leaf)
                if p >= len(v):
                    raise CannotEval(leaf)
                v = v[p]
            return int(v)
        raise CannotEval(leaf)

    def __contains__(self, leaf):
        try:
            self[leaf]
            return True
        except (CannotEval, KeyError, IndexError, TypeError):
            return False

    def __missing__(self, leaf):
        if isinstance(leaf, tuple) and leaf and leaf[0] == 'opq':
            raise KeyError(leaf)        # opaque leaves are evaluated by terms.eval_leaf from their payload
        v = self.lookup(leaf)
        self[leaf] = v
        return v


def ev_term(t, env):
    return terms.eval_term(t, env)


class Ref(Exception):
    pass


def render(v, env, prog, lf):
    """Interpreter value -> the text Rust's {:?} prints for the corresponding value."""
    k = v[0]
    if k in ('k', 'bv', 'lin', 'atom'):
        w = terms.width(v)
        x = ev_term(v, env) & mask(w)
        return ('true' if x else 'false') if w == 1 else str(x)
    if k == 'unit':
        return '()'
    if k == 'tuple':
        if not v[1]:
            return '()'
        return '(%s%s)' % (', '.join(render(e, env, prog, lf) for e in v[1]), ',' if len(v[1]) == 1 else '')
    if k == 'array':
        return '[%s]' % ', '.join(render(e, env, prog, lf) for e in v[1])
    if k == 'symenum':
        raise Ref('symbolic enum')
    if k == 'adt':
        adt = prog.adts[v[1]]
        if adt['kind'] == 'enum':
            var = adt['variants'][v[2]]
            if not v[3]:
                return var['name']
            return '%s(%s)' % (var['name'], ', '.join(render(e, env, prog, lf) for e in v[3]))
        raise Ref('struct value')
    raise Ref('value of kind %s' % k)


def final_array(obj, env, prog, lf):
    if obj[0] == 'array':
        return [ev_term(c, env) & 0xFF for c in obj[1]]
    raise Ref('heap object %s' % obj[0])


def final_buf(obj, initial, env, interp_heap):
    """Apply the recorded writes of an output buffer to its initial concrete content."""
    out = list(initial)
    for lo, n, content in obj[2]:
        lo_, n_ = ev_term(lo, env), ev_term(n, env)
        if content[0] == 'cells':
            for i, c in enumerate(content[1]):
                out[lo_ + i] = ev_term(c, env) & 0xFF
        elif content[0] == 'fill':
            for i in range(n_):
                out[lo_ + i] = ev_term(content[1], env) & 0xFF
        elif content[0] == 'copy':
            (root, proj), slo, shi = content[1]
            if root[0] != 'heap' or proj:
                raise Ref('copy from a projected source')
            hn = root[1]
            src = env.args.get(hn)
            data = src[1] if src is not None else None
            if src is None and hn.endswith('.Some.0') and hn[:-7] in env.args:
                data = env.args[hn[:-7]][1]
            if data is None:
                raise Ref('copy from %s' % (hn,))
            s0 = ev_term(slo, env)
            for i in range(n_):
                out[lo_ + i] = data[s0 + i]
        else:
            raise Ref('buffer content %s' % content[0])
    return out


# ------------------------------------------------------------------------------------------------ main
def main():
    argv = sys.argv[1:]
    n_cases = N
    if '--n' in argv:
        i = argv.index('--n')
        n_cases = int(argv[i + 1])
        del argv[i:i + 2]
    flt = [a for a in argv if not a.startswith('--')]
    path, th = extract('dev', repo=os.path.join(V, 'fixtures', CRATE), crate=CRATE)
    prog = Program(path)
    rnd = random.Random(20260929)
    funcs = []
    skipped = []
    for key in sorted(prog.instances):
        inst = prog.instances[key]
        if not inst['local'] or inst['crate'] != CRATE or '{closure' in key or inst['vis'] != 'pub' or '::' in key:
            continue
        if flt and not any(f in key for f in flt):
            continue
        names = dict((a, n) for a, n in inst['body']['names'])
        params = []
        ok = True
        for i, ty in enumerate(inst['sig']['inputs']):
            kd = kind_of(ty)
            if kd is None:
                ok = False
                break
            params.append((names.get(i + 1, 'arg%d' % (i + 1)), kd))
        if not ok:
            skipped.append(key)
            continue
        funcs.append((key, params))
    # ---- generate the Rust harness
    cases = {}
    lines = ['use std::panic::{catch_unwind, AssertUnwindSafe};', 'use %s::*;' % CRATE, '',
             '#[test]', 'fn concrete() {', '    std::panic::set_hook(Box::new(|_| {}));']
    for key, params in funcs:
        cs = []
        for ci in range(n_cases):
            vals = [gen_value(rnd, kd) for _, kd in params]
            cs.append(vals)
            lines.append('    {')
            call_args = []
            muts = []
            for pi, ((nm, kd), v) in enumerate(zip(params, vals)):
                var = 'a%d' % pi
                t = kd[0]
                if t in ('int', 'bool', 'arr'):
                    lines.append('        let %s: %s = %s;' % (var, rust_ty(kd), rust_lit(kd, v)))
                    call_args.append(var)
                elif t == 'refarr':
                    lines.append('        let %s%s: [u8; %d] = %s;' % ('mut ' if kd[2] else '', var, kd[1], rust_lit(kd, v)))
                    call_args.append(('&mut ' if kd[2] else '&') + var)
                    if kd[2]:
                        muts.append(var)
                elif t == 'slice':
                    lines.append('        let %s%s: [u8; %d] = %s;' % ('mut ' if kd[1] else '', var, len(v), rust_lit(kd, v)))
                    call_args.append(('&mut ' if kd[1] else '&') + var + '[..]')
                    if kd[1]:
                        muts.append(var)
                elif t == 'optslice':
                    if v is None:
                        lines.append('        let %s: Option<&[u8]> = None;' % var)
                    else:
                        lines.append('        let %s_s: [u8; %d] = [%s];' % (var, len(v), ', '.join('%du8' % b for b in v)))
                        lines.append('        let %s: Option<&[u8]> = Some(&%s_s[..]);' % (var, var))
                    call_args.append(('&' if kd[1] else '') + var)
                elif t == 'optint':
                    lines.append('        let %s: Option<u8> = %s;' % (var, 'None' if v is None else 'Some(%d)' % v))
                    call_args.append(('&' if kd[2] else '') + var)
                elif t == 'slice_arr':
                    lines.append('        let %s: [[u8; %d]; %d] = %s;' % (var, kd[1], len(v), rust_lit(kd, v)))
                    call_args.append('&' + var + '[..]')
                elif t == 'refarr_arr':
                    lines.append('        let %s: [[u8; %d]; %d] = %s;' % (var, kd[2], kd[1], rust_lit(kd, v)))
                    call_args.append('&' + var)
            lines.append('        let r = catch_unwind(AssertUnwindSafe(|| format!("{:?}", %s(%s))));' % (key, ', '.join(call_args)))
            lines.append('        println!("@@ %s %d {}%s |", match r { Ok(s) => s, Err(_) => "PANIC".to_string() }%s);' % (
                key, ci, ''.join(' {:?}' for _ in muts), ''.join(', %s' % m for m in muts)))
            lines.append('    }')
        cases[key] = cs
    lines.append('}')
    tmp = tempfile.mkdtemp(prefix='mctpsa-concrete-')
    try:
        root = os.path.join(tmp, CRATE)
        shutil.copytree(os.path.join(V, 'fixtures', CRATE), root, ignore=shutil.ignore_patterns('target'))
        os.makedirs(os.path.join(root, 'tests'), exist_ok=True)
        open(os.path.join(root, 'tests', 'concrete.rs'), 'w').write('\n'.join(lines) + '\n')
        env = dict(os.environ, CARGO_NET_OFFLINE='true', CARGO_TARGET_DIR=os.path.join(tmp, 'target'))
        r = subprocess.run('cargo test --offline --test concrete -- --nocapture --test-threads 1', cwd=root, env=env, shell=True,
                           stdout=subprocess.PIPE, stderr=subprocess.STDOUT, text=True)
        out = r.stdout
        if 'test result: ok' not in out:
            print(out[-3000:])
            print('the concrete harness did not build or run')
            return 2
    finally:
        shutil.rmtree(tmp, ignore_errors=True)
    concrete = {}
    for l in out.splitlines():
        if l.startswith('@@ '):
            m = re.match(r'^@@ (\S+) (\d+) (.*) \|$', l)
            if m:
                concrete[(m.group(1), int(m.group(2)))] = m.group(3)
    # ---- compare
    bad = 0
    n_cmp = 0
    n_unk = 0
    for key, params in funcs:
        it = Interp(prog)
        try:
            leaves, na = it.run(key, default_args())
        except Exception as e:
            print('%-28s interpreter failed: %r' % (key, e))
            bad += 1
            continue
        mism = []
        unk = 0
        for ci, vals in enumerate(cases[key]):
            got = concrete.get((key, ci))
            if got is None:
                continue
            args = dict((nm, (kd, v)) for (nm, kd), v in zip(params, vals))
            env = Env(args)
            match = []
            undecided = False
            for lf in leaves:
                try:
                    if all(terms.eval_atom(a, env) for a in lf.facts):
                        match.append(lf)
                except (CannotEval, KeyError, IndexError, TypeError):
                    undecided = True
            if undecided and len(match) != 1:
                unk += 1
                continue
            if len(match) != 1:
                mism.append((ci, 'input matches %d leaves (partition broken)' % len(match), vals))
                continue
            lf = match[0]
            if lf.kind == 'unanalysable':
                unk += 1
                continue
            try:
                if lf.kind == 'panic':
                    exp = 'PANIC'
                else:
                    exp = render(lf.value, env, prog, lf)
                    for (nm, kd), v in zip(params, vals):
                        if kd[0] == 'refarr' and kd[2]:
                            exp += ' ' + str(final_array(lf.heap[nm], env, prog, lf))
                        elif kd[0] == 'slice' and kd[1]:
                            exp += ' ' + str(final_buf(lf.heap[nm], v, env, lf.heap))
            except (Ref, CannotEval, KeyError, IndexError, TypeError) as e:
                unk += 1
                continue
            n_cmp += 1
            if lf.kind == 'panic':
                # the buffers after a panic are printed by the harness too; only the outcome is compared
                if not got.startswith('PANIC'):
                    mism.append((ci, 'analyser: panic (%s); compiled code: %s' % (lf.panic[1][:60], got[:80]), vals))
            elif exp != got:
                mism.append((ci, 'analyser: %s; compiled code: %s' % (exp[:120], got[:120]), vals))
        n_unk += unk
        if mism:
            bad += 1
            print('%-28s MISMATCH on %d of %d inputs; first: %s   input %s' % (key, len(mism), len(cases[key]), mism[0][1], str(mism[0][2])[:160]))
        elif '--verbose' in sys.argv:
            print('%-28s ok (%d inputs, %d not comparable)' % (key, len(cases[key]), unk))
    print('%d concrete outcomes parsed' % len(concrete))
    print('%d functions compared on %d inputs each (%d outcomes compared, %d not comparable), %d functions outside the harness, %d with mismatches' % (
        len(funcs), n_cases, n_cmp, n_unk, len(skipped), bad))
    return 1 if bad else 0


if __name__ == '__main__':
    sys.exit(main())
