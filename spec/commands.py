"""Reference layouts of the packets the library encodes. Written from DSP0236 1.3.x clause 12
(control commands), DSP0237 1.2.0 clause 6 (SMBus binding) and the property statements; keyed
by the *public API function name*, NOT derived from the code.

Field kinds for parameters after the command code / completion code:
  ('u8', name)                 the full 8 bits of the byte-wide argument `name`
  ('enum', name)               the numeric value of the enum-typed argument `name`
  ('bool', name)               bit 0 = the bool argument, bits 7..1 zero
  ('const', value)
  ('bits', [(hi, lo, src), ...]) a packed byte: bit range hi..lo holds the low bits of src, all other bits 0;
                                 src is ('enum', name) | ('u8', name) | ('bool', name)
  ('cell', path)               the content of a state cell of `self`
  ('array', name, n)           n bytes of the array argument `name`, in order
  ('count', name)              the number of elements of slice argument `name`, as one byte
  ('bytes', name)              every byte of slice argument `name`, in order
  ('entries', name, 4)         every element of slice argument `name`, each its 4 raw bytes in order
"""

# command code table: DSP0236 Table 12
from enums import COMMAND_CODES as CC

# ---- control requests: body = [Rq=1 D=0 rsvd=0 inst=0] [code] params...
REQUESTS = {
    'set_endpoint_id': dict(code=CC['SetEndpointID'], params=[('enum', 'operation'), ('u8', 'eid')],
                            refuse=[('u8-in', 'eid', (0x00, 0xFF))]),
    'get_endpoint_id': dict(code=CC['GetEndpointID'], params=[]),
    'get_endpoint_uuid': dict(code=CC['GetEndpointUUID'], params=[]),
    'get_mctp_version_support': dict(code=CC['GetMCTPVersionSupport'], params=[('enum', 'query')]),
    'get_message_type_suport': dict(code=CC['GetMessageTypeSupport'], params=[]),
    'get_vendor_defined_message_support': dict(code=CC['GetVendorDefinedMessageSupport'], params=[('u8', 'vendor_id')]),
    'resolve_endpoint_id': dict(code=CC['ResolveEndpointID'], params=[('u8', 'endpont_id')]),
    'allocate_endpoint_ids': dict(code=CC['AllocateEndpointIDs'],
                                  params=[('enum', 'operation'), ('u8', 'pool_size'), ('u8', 'starting_eid')]),
    'routing_information_update': dict(code=CC['RoutingInformationUpdate'],
                                       params=[('count', 'entries'), ('entries', 'entries', 4)],
                                       refuse=[('count-gt', 'entries', 7)]),
    'get_routing_table_entries': dict(code=CC['GetRoutingTableEntries'], params=[('u8', 'entry_handle')]),
    'prepare_for_endpoint_discovery': dict(code=CC['PrepareForEndpointDiscovery'], params=[]),
    'endpoint_discovery': dict(code=CC['EndpointDiscovery'], params=[]),
    'discovery_notify': dict(code=CC['DiscoveryNotify'], params=[]),
    'get_network_id': dict(code=CC['GetNetworkID'], params=[]),
    'query_hop': dict(code=CC['QueryHop'], params=[('u8', 'target_eid'), ('enum', 'msg_type')]),
    'resolve_uuid': dict(code=CC['ResolveUUID'], params=[('array', 'uuid', 16), ('u8', 'entry_handle')]),
    'query_rate_limit': dict(code=CC['QueryRateLimit'], params=[]),
}

# declared stubs: they write a packet and then hit unimplemented!(); excluded from the encoder
# properties by name, and the exclusion is re-verified (every path must end in a panic)
STUBS = ['request_tx_rate_limit', 'update_rate_limmit', 'query_supported_interfaces']

# ---- control responses: body = [Rq=0 D=0 rsvd=0 inst=0] [code] [completion code] fields...
RESPONSES = {
    'set_endpoint_id': dict(code=CC['SetEndpointID'], fields=[
        ('bits', [(5, 4, ('enum', 'assignment_status')), (1, 0, ('enum', 'allocation_status'))]),
        ('cell', 'eid'), ('const', 0x00)]),
    'get_endpoint_id': dict(code=CC['GetEndpointID'], fields=[
        ('cell', 'eid'),
        ('bits', [(5, 4, ('enum', 'endpoint_type')), (1, 0, ('enum', 'endpoint_id_type'))]),
        ('bits', [(0, 0, ('bool', 'fairness_support'))])]),
    'get_endpoint_uuid': dict(code=CC['GetEndpointUUID'], fields=[('array', 'uuid', 16)]),
    'get_mctp_version_support': dict(code=CC['GetMCTPVersionSupport'], fields=[
        ('const', 0x01), ('const', 0xF1), ('const', 0xF3), ('const', 0xF1), ('const', 0x00)]),
    'get_message_type_suport': dict(code=CC['GetMessageTypeSupport'], fields=[
        ('count', 'supported_msg_types'), ('bytes', 'supported_msg_types')],
        refuse=[('count-gt', 'supported_msg_types', 30)]),
    'get_vendor_defined_message_support': dict(code=CC['GetVendorDefinedMessageSupport'], fields=[
        ('u8', 'vendor_id_selector'), ('bytes', 'vendor_id')],
        shape=[('count-le', 'vendor_id', 7)]),
}

# ---- vendor defined / SPDM
MESSAGE_TYPE_OF_WRITER = {
    'generate_control_packet_bytes': 0x00,
    'generate_pci_msg_packet_bytes': 0x7E,
    'generate_iana_msg_packet_bytes': 0x7F,
    'generate_spdm_msg_packet_bytes': ('enum', 'message_type'),   # 0x05 SPDM / 0x06 secured, caller's choice
}

# fixed data lengths the decoder enforces (the list the property C09 states)
FIXED_REQUEST_LEN = {CC['SetEndpointID']: 2, CC['GetMCTPVersionSupport']: 1, CC['GetVendorDefinedMessageSupport']: 1,
                     CC['ResolveEndpointID']: 1, CC['AllocateEndpointIDs']: 3}
FIXED_RESPONSE_LEN = {CC['SetEndpointID']: 3, CC['GetEndpointUUID']: 16, CC['GetMCTPVersionSupport']: 5}
# response lengths outside the C09 claim (the library's table disagrees with DSP0236 for these)
RESPONSE_LEN_OUTSIDE_CLAIM = [CC['GetEndpointID'], CC['AllocateEndpointIDs'], CC['RoutingInformationUpdate']]
