"""Code points, written from DSP0236 1.3.x (Table 12 command codes, Table 13 completion codes),
DSP0239 (message types) and the field definitions of the commands; NOT derived from the code."""

# DSP0236 Table 12 - MCTP control command numbers
COMMAND_CODES = {
    'Reserved': 0x00,
    'SetEndpointID': 0x01,
    'GetEndpointID': 0x02,
    'GetEndpointUUID': 0x03,
    'GetMCTPVersionSupport': 0x04,
    'GetMessageTypeSupport': 0x05,
    'GetVendorDefinedMessageSupport': 0x06,
    'ResolveEndpointID': 0x07,
    'AllocateEndpointIDs': 0x08,
    'RoutingInformationUpdate': 0x09,
    'GetRoutingTableEntries': 0x0A,
    'PrepareForEndpointDiscovery': 0x0B,
    'EndpointDiscovery': 0x0C,
    'DiscoveryNotify': 0x0D,
    'GetNetworkID': 0x0E,
    'QueryHop': 0x0F,
    'ResolveUUID': 0x10,
    'QueryRateLimit': 0x11,
    'RequestTXRateLimit': 0x12,
    'UpdateRateLimit': 0x13,
    'QuerySupportedInterfaces': 0x14,
}
COMMAND_UNKNOWN = ('Unknown', 0xFF)

# DSP0239 message type codes used by the library
MESSAGE_TYPES = {
    'MCtpControl': 0x00,
    'SpdmOverMctp': 0x05,
    'SecuredMessages': 0x06,
    'VendorDefinedPCI': 0x7E,
    'VendorDefinedIANA': 0x7F,
}
MESSAGE_INVALID = ('Invalid', 0xFF)

# DSP0236 Table 13 - completion codes
COMPLETION_CODES = {
    'Success': 0x00,
    'Error': 0x01,
    'ErrorInvalidData': 0x02,
    'ErrorInvalidLength': 0x03,
    'ErrorNotReady': 0x04,
    'ErrorUnsupportedCmd': 0x05,
}

# Argument enumerations whose numeric value goes on the wire (field definitions in DSP0236 clause 12)
ARGUMENT_ENUMS = {
    'control_packet::MCTPSetEndpointIDOperations': {'SetEID': 0, 'ForceEID': 1, 'ResetEID': 2, 'SetDiscoveredFlag': 3},
    'control_packet::MCTPSetEndpointIDAssignmentStatus': {'Accpeted': 0, 'Rejected': 1},
    'control_packet::MCTPSetEndpointIDAllocationStatus': {'NoIDPool': 0, 'RequiresAllocation': 1, 'AlreadyAllocated': 2},
    'control_packet::MCTPGetEndpointIDEndpointType': {'Simple': 0, 'Bus': 1},
    'control_packet::MCTPGetEndpointIDEndpointIDType': {'DynamicEID': 0, 'StaticEID': 1, 'StaticPresentMatchEID': 2, 'StaticPresentNoMatchEID': 3},
    'control_packet::MCTPVersionQuery': {'MCTPBaseSpec': 0xFF, 'MCTPControlProcMessage': 0x00, 'DSP0241': 0x01, 'DSP0261': 0x02, 'DSP0261_2': 0x03},
    'control_packet::AllocateEndpointIDOperation': {'AllocateEIDs': 0, 'ForceAllocation': 1, 'GetAllocationInformation': 2},
    'control_packet::RoutingInformationUpdateEntryType': {'SingleEndpointNotBridge': 0, 'EIDRangeIncludeBridge': 1, 'SingleEndpointBridge': 2, 'EIDRangeNotIncludeBridge': 3},
}

ENUM_TABLES = {
    'control_packet::CommandCode': dict(list(COMMAND_CODES.items()) + [COMMAND_UNKNOWN]),
    'base_packet::MessageType': dict(list(MESSAGE_TYPES.items()) + [MESSAGE_INVALID]),
    'control_packet::CompletionCode': dict(COMPLETION_CODES),
}
