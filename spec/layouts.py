"""Bit layouts of the public header views, written from DSP0237 1.2.0 (SMBus header, Table 1 / Figure 2),
DSP0236 1.3.x (transport header Figure 4 / Table 1, message body Table 1, control message header Table 10,
routing information update entry Table 27, vendor-defined message headers clause 13); NOT derived from the code.

Each field: name -> (segments, getter, setter, value bits). A segment is (byte index, high bit, low bit) with
bit 7 the most significant bit of the byte; segments are listed most-significant first.
"""

VIEWS = {
    'MCTPSMBusHeader': dict(bytes=4, fields={
        'dest_read_write':   ([(0, 0, 0)], 'dest_read_write', 'set_dest_read_write', 8),
        'dest_slave_addr':   ([(0, 7, 1)], 'dest_slave_addr', 'set_dest_slave_addr', 8),
        'command_code':      ([(1, 7, 0)], 'command_code', 'set_command_code', 8),
        'byte_count':        ([(2, 7, 0)], 'byte_count', 'set_byte_count', 8),
        'source_read_write': ([(3, 0, 0)], 'source_read_write', 'set_source_read_write', 8),
        'source_slave_addr': ([(3, 7, 1)], 'source_slave_addr', 'set_source_slave_addr', 8),
    }),
    'MCTPTransportHeader': dict(bytes=4, fields={
        'rsvd':               ([(0, 7, 4)], 'rsvd', None, 8),
        'hdr_version':        ([(0, 3, 0)], 'hdr_version', 'set_hdr_version', 8),
        'dest_endpoint_id':   ([(1, 7, 0)], 'dest_endpoint_id', 'set_dest_endpoint_id', 8),
        'source_endpoint_id': ([(2, 7, 0)], 'source_endpoint_id', 'set_source_endpoint_id', 8),
        'som':                ([(3, 7, 7)], 'som', 'set_som', 8),
        'eom':                ([(3, 6, 6)], 'eom', 'set_eom', 8),
        'pkt_seq':            ([(3, 5, 4)], 'pkt_seq', 'set_pkt_seq', 8),
        'to':                 ([(3, 3, 3)], 'to', 'set_to', 8),
        'msg_tag':            ([(3, 2, 0)], 'msg_tag', 'set_msg_tag', 8),
    }),
    'MCTPMessageBodyHeader': dict(bytes=1, fields={
        'ic':       ([(0, 7, 7)], 'ic', 'set_ic', 8),
        'msg_type': ([(0, 6, 0)], 'msg_type', 'set_msg_type', 8),
    }),
    'MCTPControlMessageHeader': dict(bytes=2, fields={
        'rq':           ([(0, 7, 7)], 'rq', 'set_rq', 8),
        'd':            ([(0, 6, 6)], 'd', 'set_d', 8),
        'rsvd':         ([(0, 5, 5)], 'rsvd', None, 8),
        'instance_id':  ([(0, 4, 0)], 'instance_id', 'set_instance_id', 8),
        'command_code': ([(1, 7, 0)], 'command_code', 'set_command_code', 8),
    }),
    'SMBusRoutingInformationUpdateEntry': dict(bytes=4, fields={
        'entry_type':       ([(0, 3, 0)], 'entry_type', 'set_entry_type', 8),
        '_rsvd':            ([(0, 7, 4)], '_rsvd', None, 8),
        'eid_range_size':   ([(1, 7, 0)], 'eid_range_size', 'set_eid_range_size', 8),
        'first_eid':        ([(2, 7, 0)], 'first_eid', 'set_first_eid', 8),
        'physical_address': ([(3, 7, 0)], 'physical_address', 'set_physical_address', 8),
    }),
    'PCIMessageFormat': dict(bytes=2, fields={
        'vendor_id': ([(0, 7, 0), (1, 7, 0)], 'vendor_id', 'set_vendor_id', 16),
    }),
    'IANAMessageFormat': dict(bytes=4, fields={
        'vendor_id': ([(0, 7, 0), (1, 7, 0), (2, 7, 0), (3, 7, 0)], 'vendor_id', 'set_vendor_id', 32),
    }),
}

# validators: Ok exactly when ...
SUPPORTED_TYPES = (0x00, 0x05, 0x06, 0x7E, 0x7F)


def transport_valid(b0, version):
    return (b0 >> 4) == 0 and (b0 & 0x0F) == version


def body_valid(b0):
    return (b0 >> 7) == 0 and (b0 & 0x7F) in SUPPORTED_TYPES
