"""Reference decoder predicate for C09, written from the property statement and DSP0236/DSP0237;
NOT derived from the code. It works on *classes* of the header bytes.

Input class (one point of the abstract input space):
  hdr_ok   bool   byte 4 == 0x01 (reserved bits 0, header version 1)
  ic       bool   bit 7 of byte 8
  mtype    int    bits 6..0 of byte 8
  rq       int    bit 7 of byte 9            (control only)
  cmd      int    byte 10                    (control only)
  cc       int    byte 11                    (control responses only)
  pec_ok   bool
  len_eq   True / False                      data length equals the fixed length of cmd for the direction
                                             (only meaningful when that fixed length is non-zero)
"""
from commands import FIXED_REQUEST_LEN, FIXED_RESPONSE_LEN, RESPONSE_LEN_OUTSIDE_CLAIM
from enums import MESSAGE_TYPES, COMPLETION_CODES

SUPPORTED = dict((v, k) for k, v in MESSAGE_TYPES.items())     # code -> variant name
CC_NAME = dict((v, k) for k, v in COMPLETION_CODES.items())


def fixed_len(rq, cmd):
    return (FIXED_REQUEST_LEN if rq else FIXED_RESPONSE_LEN).get(cmd, 0)


def outside_claim(rq, cmd):
    """Control responses whose expected length in the library disagrees with DSP0236 (see the C01 finding)."""
    return (not rq) and cmd in RESPONSE_LEN_OUTSIDE_CLAIM


def payload_offset(mtype, rq):
    """Offset of the payload: after the message-type byte, plus control header (2) and completion code (1)."""
    if mtype != MESSAGE_TYPES['MCtpControl']:
        return 9
    return 11 if rq else 12


def accepts(hdr_ok, ic, mtype, rq, cmd, cc, pec_ok, len_eq):
    if not hdr_ok or ic or mtype not in SUPPORTED or not pec_ok:
        return False
    if mtype != MESSAGE_TYPES['MCtpControl']:
        return True
    if rq:
        t = fixed_len(1, cmd)
        return t == 0 or len_eq
    if cc != 0:
        return False
    t = fixed_len(0, cmd)
    return t == 0 or len_eq


def truthful_errors(hdr_ok, ic, mtype, rq, cmd, cc, pec_ok, len_eq):
    """The set of errors whose stated condition really holds for this input class.
    Errors are (message type name, description) in the vocabulary of rules.common.describe_result."""
    out = set()
    unsupported = (not hdr_ok) or ic or (mtype not in SUPPORTED)
    if unsupported:
        out.add(('Invalid', 'Unknown'))
        return out       # nothing else can be said truthfully about a packet whose header is unsupported
    tname = SUPPORTED[mtype]
    if not pec_ok:
        out.add((tname, ('ControlMessage', 'InvalidPEC')))
    if mtype == MESSAGE_TYPES['MCtpControl']:
        t = fixed_len(rq, cmd)
        if t > 0 and not len_eq:
            out.add((tname, ('ControlMessage', 'InvalidRequestDataLength')))
        if not rq and cc != 0:
            if cc in CC_NAME:
                out.add((tname, ('ControlMessage', 'UnsuccessfulCompletionCode', CC_NAME[cc])))
            else:
                # a completion code the public enum cannot represent: reported as an unknown control error
                out.add((tname, ('ControlMessage', 'Unknown')))
    return out
