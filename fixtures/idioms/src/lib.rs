//! Ordinary, correct Rust idioms over byte slices. The analyser must interpret every function here without an
//! `unanalysable` leaf (fixture for the thorough tier: a behaviour-preserving rewrite of libmctp using one of
//! these idioms must not turn into a false alarm).
#![no_std]

pub fn sum_range(b: &[u8; 4]) -> u8 {
    let mut s = 0u8;
    for i in 0..4 {
        s ^= b[i];
    }
    s
}

pub fn copy_zip(dst: &mut [u8; 4], src: &[u8]) {
    for (d, s) in dst.iter_mut().zip(src) {
        *d = *s;
    }
}

pub fn copy_zip_iter(dst: &mut [u8; 4], src: &[u8; 3]) {
    for (d, s) in dst.iter_mut().zip(src.iter()) {
        *d = *s;
    }
}

pub fn get_opt(p: &[u8]) -> u8 {
    match p.get(2) {
        Some(v) => *v,
        None => 0,
    }
}

pub fn first_last(p: &[u8]) -> u8 {
    match (p.first(), p.last()) {
        (Some(a), Some(b)) => a ^ b,
        _ => 0,
    }
}

pub fn checked(p: &[u8]) -> Option<usize> {
    p.len().checked_sub(1)
}

pub fn checked_add(x: u8) -> Option<u8> {
    x.checked_add(1)
}

pub fn sat(p: &[u8]) -> usize {
    p.len().saturating_sub(4)
}

pub fn split(p: &[u8]) -> u8 {
    if p.len() < 4 {
        return 0;
    }
    let (a, b) = p.split_at(2);
    a[0] ^ b[0]
}

pub fn fill(buf: &mut [u8]) {
    if buf.len() >= 4 {
        buf[0..4].fill(0xAA);
    }
}

pub fn from_u8(x: u8) -> usize {
    usize::from(x) + 1
}

pub fn wrapping(x: u8) -> u8 {
    x.wrapping_add(1)
}

pub fn is_empty(p: &[u8]) -> bool {
    p.is_empty()
}

pub fn minmax(a: usize, b: usize) -> usize {
    a.min(b).max(3)
}

pub fn be32(p: &[u8]) -> u32 {
    if p.len() < 4 {
        return 0;
    }
    u32::from_be_bytes([p[0], p[1], p[2], p[3]])
}

pub fn to_be(x: u16) -> [u8; 2] {
    x.to_be_bytes()
}

pub fn iter_take(p: &[u8]) -> u8 {
    let mut s = 0;
    for b in p.iter().take(3) {
        s ^= *b;
    }
    s
}

pub fn slice_pattern(p: &[u8]) -> u8 {
    match p {
        [a, b, ..] => a ^ b,
        _ => 0,
    }
}

pub fn for_in_slice(p: &[u8; 3]) -> u8 {
    let mut s = 0;
    for b in p {
        s |= *b;
    }
    s
}

pub fn range_to(p: &[u8]) -> u8 {
    if p.len() < 3 {
        return 0;
    }
    let q = &p[..2];
    let r = &p[1..=2];
    q[0] ^ r[1]
}

pub fn bool_to_u8(f: bool) -> u8 {
    u8::from(f) | (f as u8) << 1
}

pub fn ok_or(p: &[u8]) -> Result<u8, ()> {
    let v = p.get(1).ok_or(())?;
    Ok(*v)
}

pub fn map_err(p: &[u8]) -> Result<u8, u8> {
    let x: Result<u8, ()> = if p.is_empty() { Err(()) } else { Ok(p[0]) };
    x.map_err(|_| 7)
}

pub fn swap_bytes(x: u16) -> u16 {
    x.swap_bytes()
}

pub fn all_zero(p: &[u8; 4]) -> bool {
    p.iter().all(|b| *b == 0)
}

pub fn array_eq(a: &[u8; 2], b: &[u8; 2]) -> bool {
    a == b
}

pub fn copy_within_array(a: &mut [u8; 8], src: &[u8]) {
    let n = src.len();
    if n <= 6 {
        a[2..2 + n].copy_from_slice(src);
    }
}

pub fn from_ref(x: u8, out: &mut [u8; 2]) {
    let s = core::slice::from_ref(&x);
    out[..1].copy_from_slice(s);
}

pub fn let_else_get(p: &[u8]) -> u8 {
    let Some(head) = p.get(..3) else {
        return 0;
    };
    head[0] ^ head[2]
}

pub fn split_at_mut_copy(a: &mut [u8; 7], id: u32, n: u16) -> usize {
    let (x, y) = a.split_at_mut(4);
    x.copy_from_slice(&id.to_be_bytes());
    y[..2].copy_from_slice(&n.to_be_bytes());
    6
}

pub fn vec_get(v: &[u16], i: u8) -> u16 {
    match v.get(usize::from(i)) {
        Some(x) => *x,
        None => 0xFFFF,
    }
}

pub fn match_slice_exact(p: &[u8]) -> u8 {
    match *p {
        [0, x] | [1, x] => x,
        [2, _] => 7,
        _ => 9,
    }
}

const TABLE: [u8; 4] = [10, 20, 30, 40];

pub fn const_table(i: u8) -> u8 {
    TABLE.get(usize::from(i)).copied().unwrap_or(0xFF)
}

pub fn sum_lens(a: &[u8], c: &[u8]) -> usize {
    let b: Option<&[u8]> = if c.len() > 2 { Some(c) } else { None };
    let parts: [&[u8]; 2] = [a, b.unwrap_or_default()];
    parts.iter().map(|p| p.len()).sum()
}

pub fn for_array_by_value(a: &[u8; 2], out: &mut [u8; 4]) {
    let mut off = 0;
    for part in [&a[..], &a[..1]] {
        out[off..off + part.len()].copy_from_slice(part);
        off += part.len();
    }
}

pub fn any_ff(p: &[u8; 3]) -> bool {
    p.iter().any(|b| *b == 0xFF)
}

pub fn position_of(p: &[u8; 3], x: u8) -> Option<usize> {
    p.iter().position(|b| *b == x)
}

pub fn subarray_assign(dst: &mut [u8; 5], code: u8, src: &[u8; 4]) {
    let [first, rest @ ..] = dst;
    *first = code;
    *rest = *src;
}

pub fn opt_slice_coercion(x: u16) -> usize {
    let bytes = x.to_be_bytes();
    let o: Option<&[u8]> = Some(&bytes);
    o.map_or(0, |s| s.len())
}

pub fn chunks_zip(dst: &mut [u8; 9], src: &[[u8; 4]]) {
    let n = src.len();
    if n > 2 {
        return;
    }
    let (count, body) = dst.split_at_mut(1);
    count[0] = n as u8;
    for (chunk, e) in body[..n * 4].chunks_exact_mut(4).zip(src) {
        chunk.copy_from_slice(e);
    }
}

pub fn low_byte_mask(p: &[u8]) -> u8 {
    if p.len() > 200 {
        return 0;
    }
    ((p.len() + 6) & 0xFF) as u8
}

pub fn rev_fill(buf: &mut [u8; 7], len: usize, mut word: u64) {
    if len > 7 || len < 1 {
        return;
    }
    for b in buf[1..len].iter_mut().rev() {
        *b = word as u8;
        word >>= 8;
    }
}

pub fn filter_count(p: &[u8; 3]) -> usize {
    p.iter().filter(|t| **t != 0).count()
}

pub fn u64_pack(id: u32, n: u16) -> u64 {
    (u64::from(id) << 16) | u64::from(n)
}

pub fn clear_bits(x: u8, y: u8) -> u8 {
    (x & !0x0F) | (!y & 0x0F)
}

pub fn crc_step(crc: u8) -> u8 {
    if crc & 0x80 != 0 {
        (crc << 1) ^ 0x07
    } else {
        crc << 1
    }
}

pub fn from_fn_array(uuid: &[u8; 4], h: u8) -> [u8; 5] {
    core::array::from_fn(|i| uuid.get(i).copied().unwrap_or(h))
}

pub fn ok_or_else_closure(p: &[u8]) -> Result<u8, u16> {
    let v = p.first().copied().ok_or_else(|| 7u16)?;
    Ok(v)
}

pub fn rev_zip(dst: &mut [u8; 4], words: &[u16; 2]) {
    for (c, w) in dst.chunks_mut(2).zip(words.iter().rev()) {
        c.copy_from_slice(&w.to_be_bytes());
    }
}

pub fn mem_replace(a: &mut [u8; 2], b: [u8; 2]) -> u8 {
    let old = core::mem::replace(a, b);
    old[0]
}

pub fn clone_from(a: &mut [u8; 3], b: &[u8]) {
    if b.len() == 3 {
        a.clone_from_slice(b);
    }
}

pub fn zip_chain(dst: &mut [u8; 5], a: &[u8; 2], b: &[u8; 3]) {
    for (d, s) in dst.iter_mut().zip(a.iter().chain(b.iter())) {
        *d = *s;
    }
}

pub fn zip_once_flat(dst: &mut [u8; 5], n: u8, e: &[[u8; 2]; 2]) {
    for (d, s) in dst
        .iter_mut()
        .zip(core::iter::once(n).chain(e.iter().flat_map(|x| x.iter().copied())))
    {
        *d = s;
    }
}

pub fn zip_copied_for_each(dst: &mut [u8; 6], part: &[u8; 4]) -> usize {
    let (dest, rest) = dst.split_at_mut(part.len());
    dest.iter_mut()
        .zip(part.iter().copied())
        .for_each(|(d, s)| *d = s);
    rest.len() + part.iter().copied().len()
}

pub fn cloned_fold(src: &[u8; 3]) -> u8 {
    src.iter().cloned().fold(0u8, |a, b| a ^ b)
}

// ---- round 4 idioms ------------------------------------------------------------------------------------------
pub fn try_from_len(data: &[u8]) -> Result<u8, ()> {
    let n = data.len().checked_add(5).ok_or(())?;
    u8::try_from(n).map_err(|_| ())
}

pub fn usize_try_from(x: u32) -> Option<usize> {
    usize::try_from(x).ok()
}

pub fn then_some_contains(x: u8) -> Option<u8> {
    (0x08..=0xF7).contains(&x).then_some(x)
}

pub fn is_some_and_get(data: &[u8]) -> bool {
    data.get(2).is_some_and(|b| *b & 0x80 != 0)
}

pub fn split_last_pec(data: &[u8]) -> Option<(u8, usize)> {
    let (last, rest) = data.split_last()?;
    Some((*last, rest.len()))
}

pub fn split_first_rest(data: &[u8; 5]) -> u8 {
    match data.split_first() {
        Some((f, rest)) => *f ^ rest[3],
        None => 0,
    }
}

pub fn first_chunk4(data: &[u8]) -> Option<[u8; 4]> {
    data.first_chunk::<4>().copied()
}

pub fn split_first_chunk2(data: &[u8]) -> Option<(u16, usize)> {
    let (head, rest) = data.split_first_chunk::<2>()?;
    Some((u16::from_be_bytes(*head), rest.len()))
}

pub fn try_fold_sum(data: &[u8; 4]) -> Option<u8> {
    data.iter().try_fold(0u8, |a, b| a.checked_add(*b))
}

pub fn try_for_each_write(dst: &mut [u8; 4], src: &[u8; 6]) -> Result<(), ()> {
    let mut i = 0;
    src.iter().try_for_each(|b| {
        let slot = dst.get_mut(i).ok_or(())?;
        *slot = *b;
        i += 1;
        Ok(())
    })
}

pub fn map_or_len(h: &Option<&[u8]>) -> usize {
    h.map_or(0, |s| s.len()) + 1
}

pub fn find_in_table(code: u8) -> usize {
    const T: [(u8, usize); 4] = [(1, 2), (2, 0), (5, 1), (9, 7)];
    T.iter().find(|(c, _)| *c == code).map_or(0, |(_, l)| *l)
}

pub fn enumerate_write(dst: &mut [u8; 8], src: &[u8; 3]) {
    for (i, b) in src.iter().enumerate() {
        dst[i + 2] = *b;
    }
}

pub fn take_zip(dst: &mut [u8; 8], src: &[u8], n: usize) {
    for (d, s) in dst.iter_mut().zip(src.iter().take(n)) {
        *d = *s;
    }
}

pub fn last_or(data: &[u8]) -> u8 {
    data.last().copied().unwrap_or(0xFF)
}

pub fn tuple_match(format: u8, data: &[u8]) -> usize {
    match (format, data.len()) {
        (0, 2) => 3,
        (1, 4) => 5,
        (_, n) if n > 6 => 0,
        _ => 1,
    }
}

pub fn slice_pat_rest(data: &[u8]) -> Option<(u8, u8, usize)> {
    match data {
        [a, b, rest @ ..] => Some((*a, *b, rest.len())),
        _ => None,
    }
}

pub fn slice_pat_ends(data: &[u8]) -> u8 {
    match data {
        [first, .., last] => *first ^ *last,
        [one] => *one,
        [] => 0,
    }
}

pub fn u8_from_bool_shift(a: bool, b: u8) -> u8 {
    u8::from(a) << 4 | (b & 0x03)
}

pub fn usize_from(x: u8) -> usize {
    usize::from(x) + 4
}

pub struct Writer<'a> {
    buf: &'a mut [u8],
    pos: usize,
}

impl<'a> Writer<'a> {
    pub fn new(buf: &'a mut [u8]) -> Self {
        Writer { buf, pos: 0 }
    }
    fn put(&mut self, b: u8) {
        self.buf[self.pos] = b;
        self.pos += 1;
    }
    fn put_slice(&mut self, s: &[u8]) {
        self.buf[self.pos..self.pos + s.len()].copy_from_slice(s);
        self.pos += s.len();
    }
}

pub fn writer_cursor(buf: &mut [u8], hdr: &[u8; 4], body: &[u8]) -> usize {
    let mut w = Writer::new(buf);
    w.put(0x20);
    w.put_slice(hdr);
    w.put_slice(body);
    w.pos
}

pub struct Bytes<const N: usize> {
    data: [u8; N],
    len: usize,
}

impl<const N: usize> Bytes<N> {
    fn new() -> Self {
        Bytes { data: [0; N], len: 0 }
    }
    fn push(&mut self, b: u8) {
        self.data[self.len] = b;
        self.len += 1;
    }
    fn extend_from_slice(&mut self, s: &[u8]) {
        self.data[self.len..self.len + s.len()].copy_from_slice(s);
        self.len += s.len();
    }
    fn as_slice(&self) -> &[u8] {
        &self.data[..self.len]
    }
}

pub fn bytes_builder(out: &mut [u8; 16], a: u8, tail: &[u8; 3]) -> usize {
    let mut b = Bytes::<8>::new();
    b.push(a);
    b.extend_from_slice(tail);
    let s = b.as_slice();
    out[..s.len()].copy_from_slice(s);
    s.len()
}

pub fn fn_once_helper(buf: &mut [u8; 4], v: u8) -> usize {
    fn with<F: FnOnce(&mut [u8; 4]) -> usize>(b: &mut [u8; 4], f: F) -> usize {
        f(b)
    }
    with(buf, |b| {
        b[1] = v;
        2
    })
}

pub fn windows_xor(data: &[u8; 4]) -> u8 {
    let mut x = 0;
    for w in data.windows(2) {
        x ^= w[0] & w[1];
    }
    x
}

pub fn copy_within_shift(buf: &mut [u8; 8]) {
    buf.copy_within(0..4, 2);
}

pub fn slice_swap(buf: &mut [u8; 4]) {
    buf.swap(0, 3);
}

pub fn chain_slices(dst: &mut [u8; 6], a: &[u8; 2], b: &[u8; 3]) -> usize {
    let mut n = 0;
    for (d, s) in dst.iter_mut().zip(a.iter().chain(b.iter())) {
        *d = *s;
        n += 1;
    }
    n
}

pub fn filter_map_first(data: &[u8; 4]) -> Option<u8> {
    data.iter().filter(|b| **b != 0).map(|b| *b + 1).next()
}

pub fn and_then_chain(data: &[u8]) -> Option<u8> {
    data.first().and_then(|f| data.get(usize::from(*f & 3))).copied()
}

pub fn saturating_sub_len(data: &[u8]) -> usize {
    data.len().saturating_sub(4)
}

pub fn opt_filter(x: Option<u8>) -> Option<u8> {
    x.filter(|v| *v < 0x20)
}

pub fn iter_max_len(a: &[u8; 3]) -> u8 {
    a.iter().copied().max().unwrap_or(0)
}

pub fn be16_roundtrip(x: u16, out: &mut [u8; 2]) -> u16 {
    *out = x.to_be_bytes();
    u16::from_be_bytes([out[0], out[1]])
}

pub fn try_into_array(data: &[u8]) -> Option<u32> {
    let a: [u8; 4] = data.get(1..5)?.try_into().ok()?;
    Some(u32::from_be_bytes(a))
}

pub fn try_into_ref(data: &[u8]) -> Result<u8, ()> {
    let a: &[u8; 3] = data.try_into().map_err(|_| ())?;
    Ok(a[2])
}

pub fn last_chunk2(data: &[u8]) -> Option<u8> {
    data.last_chunk::<2>().map(|c| c[0] ^ c[1])
}

pub fn first_chunk_mut_write(data: &mut [u8], v: [u8; 2]) -> bool {
    match data.first_chunk_mut::<2>() {
        Some(c) => {
            *c = v;
            true
        }
        None => false,
    }
}

pub fn cmp_match(a: u8, b: u8) -> u8 {
    match a.cmp(&b) {
        core::cmp::Ordering::Less => 1,
        core::cmp::Ordering::Equal => 2,
        core::cmp::Ordering::Greater => 3,
    }
}

pub fn min_len(a: &[u8], n: usize) -> usize {
    a.len().min(n) + core::cmp::max(n, 2)
}

// ---- loops over slices whose symbolic length is bounded by a guard ---------------------------------------------
pub fn bounded_enumerate(out: &mut [u8], data: &[u8]) -> Result<usize, ()> {
    if data.len() > 7 {
        return Err(());
    }
    let mut n = 0;
    for (i, b) in data.iter().enumerate() {
        out[i + 2] = *b;
        n += 1;
    }
    Ok(n)
}

pub fn bounded_bytes_builder(out: &mut [u8], data: &[u8]) -> Result<usize, ()> {
    if data.len() > 6 {
        return Err(());
    }
    let mut b = Bytes::<8>::new();
    b.push(data.len() as u8);
    b.extend_from_slice(data);
    let s = b.as_slice();
    out[..s.len()].copy_from_slice(s);
    Ok(s.len())
}

pub fn bounded_flat_entries(out: &mut [u8], entries: &[[u8; 2]]) -> Result<usize, ()> {
    if entries.len() > 3 {
        return Err(());
    }
    let mut w = Writer::new(out);
    w.put(entries.len() as u8);
    for e in entries {
        w.put_slice(e);
    }
    Ok(w.pos)
}

pub fn bounded_try_fold(data: &[u8]) -> Option<u8> {
    if data.len() > 4 {
        return None;
    }
    data.iter().try_fold(0u8, |a, b| a.checked_add(*b & 0x0F))
}

pub fn bounded_position(data: &[u8]) -> Option<usize> {
    if data.len() > 5 {
        return None;
    }
    data.iter().position(|b| *b == 0xFF)
}

pub fn bounded_sum_lens(parts: &[&[u8]]) -> usize {
    if parts.len() > 3 {
        return 0;
    }
    parts.iter().map(|p| p.len()).sum()
}

pub fn bounded_writer_iter(out: &mut [u8], data: &[u8]) -> Result<usize, ()> {
    if data.len() > 5 || out.len() < 8 {
        return Err(());
    }
    let (head, tail) = out.split_at_mut(2);
    head[0] = 1;
    head[1] = data.len() as u8;
    tail.iter_mut().zip(data).for_each(|(d, s)| *d = *s);
    Ok(2 + data.len())
}

pub fn bounded_rev_copy(out: &mut [u8; 8], data: &[u8]) -> usize {
    let n = data.len().min(8);
    for (d, s) in out.iter_mut().zip(data[..n].iter().rev()) {
        *d = *s;
    }
    n
}

const LENS: [(u8, usize); 3] = [(1, 2), (2, 0), (9, 7)];
pub fn const_table_ref(code: u8) -> usize {
    LENS.iter().find(|(c, _)| *c == code).map_or(0, |(_, l)| *l)
}

const PAIRS: &[(u8, u8)] = &[(1, 2), (3, 4)];
pub fn const_slice_ref(code: u8) -> u8 {
    for (a, b) in PAIRS {
        if *a == code {
            return *b;
        }
    }
    0
}

static STAT: [u8; 4] = [1, 2, 3, 4];
pub fn static_table(i: usize) -> u8 {
    STAT[i & 3]
}

pub fn mul_as_shift(a: bool, b: u8) -> u8 {
    u8::from(a) * 0x10 | (b & 0x03)
}

pub fn expect_chunk(buf: &mut [u8], h: [u8; 4]) -> usize {
    let (head, rest) = buf.split_first_chunk_mut::<4>().expect("buffer too small");
    *head = h;
    rest.len()
}

pub struct Body<'a> {
    header: [u8; 1],
    extra: Option<&'a [u8]>,
    data: &'a [u8],
}

impl<'a> Body<'a> {
    pub fn new(h: u8, extra: Option<&'a [u8]>, data: &'a [u8]) -> Self {
        Body { header: [h], extra, data }
    }
    fn parts(&self) -> impl Iterator<Item = &[u8]> {
        [Some(&self.header[..]), self.extra, Some(self.data)].into_iter().flatten()
    }
    pub fn len(&self) -> usize {
        self.parts().map(<[u8]>::len).sum()
    }
    pub fn write(&self, buf: &mut [u8]) -> usize {
        self.parts().fold(0, |offset, part| {
            let end = offset + part.len();
            buf[offset..end].copy_from_slice(part);
            end
        })
    }
}

pub fn flatten_parts(buf: &mut [u8], h: u8, extra: &Option<&[u8]>, data: &[u8]) -> usize {
    let b = Body::new(h, *extra, data);
    if b.len() > buf.len() {
        return 0;
    }
    b.write(buf)
}

// ---- round 5 idioms -----------------------------------------------------------------------------------------
pub fn step_by_write(buf: &mut [u8; 8], v: u8) {
    for i in (0..8).step_by(2) {
        buf[i] = v;
    }
}

pub fn skip_take(data: &[u8; 8]) -> u8 {
    data.iter().skip(2).take(3).fold(0, |a, b| a ^ *b)
}

pub fn array_map(a: [u8; 3]) -> [u8; 3] {
    a.map(|x| x & 0x7F)
}

pub fn take_while_count(data: &[u8; 4]) -> usize {
    data.iter().take_while(|b| **b != 0).count()
}

pub fn while_let_pop(data: &[u8]) -> u8 {
    let mut rest = data;
    let mut x = 0u8;
    let mut n = 0;
    while let Some((first, tail)) = rest.split_first() {
        if n == 3 {
            break;
        }
        x ^= *first;
        rest = tail;
        n += 1;
    }
    x
}

pub fn labeled_break(table: &[[u8; 2]; 3], key: u8) -> u8 {
    let mut found = 0;
    'outer: for row in table {
        for c in row {
            if *c == key {
                found = row[1];
                break 'outer;
            }
        }
    }
    found
}

pub fn count_ones_bits(x: u8) -> u32 {
    x.count_ones() + x.leading_zeros()
}

pub fn rotate_swap(x: u16) -> u16 {
    x.rotate_left(8) ^ x.swap_bytes()
}

pub fn is_pow2(x: u8) -> bool {
    x.is_power_of_two()
}

pub fn cell_take_update(c: &core::cell::Cell<u8>, v: u8) -> u8 {
    let old = c.take();
    c.set(old.wrapping_add(v));
    c.replace(v)
}

pub fn nonzero_opt(x: u8) -> u8 {
    match core::num::NonZeroU8::new(x) {
        Some(n) => n.get() - 1,
        None => 0xFF,
    }
}

pub fn wrapping_struct(a: u8, b: u8) -> u8 {
    (core::num::Wrapping(a) + core::num::Wrapping(b)).0
}

pub fn iter_repeat_fill(buf: &mut [u8; 4], v: u8) {
    for (d, s) in buf.iter_mut().zip(core::iter::repeat(v)) {
        *d = s;
    }
}

pub fn peekable_pairs(data: &[u8; 4]) -> u8 {
    let mut it = data.iter().peekable();
    let mut x = 0;
    while let Some(a) = it.next() {
        if let Some(b) = it.peek() {
            x ^= *a & **b;
        }
    }
    x
}

pub fn scan_prefix(data: &[u8; 3]) -> u8 {
    data.iter()
        .scan(0u8, |acc, b| {
            *acc = acc.wrapping_add(*b);
            Some(*acc)
        })
        .last()
        .unwrap_or(0)
}

pub fn chunks_exact_rem(data: &[u8; 7]) -> (u8, usize) {
    let ch = data.chunks_exact(2);
    let rem = ch.remainder().len();
    let mut x = 0;
    for c in ch {
        x ^= c[0] | c[1];
    }
    (x, rem)
}

pub fn u16_len_math(len: usize) -> Option<u8> {
    let l16 = u16::try_from(len).ok()?;
    let total = l16.checked_add(5)?;
    u8::try_from(total).ok()
}

pub fn debug_assert_len(buf: &mut [u8], v: u8) -> usize {
    if buf.len() < 2 {
        return 0;
    }
    debug_assert!(buf.len() >= 2);
    buf[1] = v;
    2
}

pub trait Encode {
    const CODE: u8;
    fn arg(&self) -> u8;
    fn encode(&self, buf: &mut [u8; 2]) {
        buf[0] = Self::CODE;
        buf[1] = self.arg();
    }
}

pub struct SetEid(pub u8);
impl Encode for SetEid {
    const CODE: u8 = 1;
    fn arg(&self) -> u8 {
        self.0
    }
}

pub fn assoc_const_trait(buf: &mut [u8; 2], eid: u8) {
    SetEid(eid).encode(buf)
}

pub fn dyn_dispatch(buf: &mut [u8; 2], eid: u8) -> u8 {
    fn go(e: &dyn Fn(u8) -> u8, x: u8) -> u8 {
        e(x)
    }
    let k = buf[0];
    go(&|v| v ^ k, eid)
}

pub fn min_by_key_idx(data: &[u8; 3]) -> usize {
    data.iter().enumerate().min_by_key(|(_, b)| **b).map_or(0, |(i, _)| i)
}

pub fn starts_with_prefix(data: &[u8]) -> bool {
    data.starts_with(&[0x01, 0x02])
}

pub fn slice_eq(a: &[u8], b: &[u8; 3]) -> bool {
    a == b
}

pub fn contains_byte(data: &[u8; 4], x: u8) -> bool {
    data.contains(&x)
}

pub fn iter_sum_u16(data: &[u8; 3]) -> u16 {
    data.iter().map(|b| u16::from(*b)).sum()
}

pub fn array_each_ref(a: &[u8; 2]) -> u8 {
    let [x, y] = a.each_ref();
    *x ^ *y
}

pub fn last_mut_set(buf: &mut [u8], v: u8) -> bool {
    if let Some(l) = buf.last_mut() {
        *l = v;
        true
    } else {
        false
    }
}

pub fn reverse_in_place(buf: &mut [u8; 4]) {
    buf.reverse();
}

pub fn rsplit_tail(data: &[u8]) -> Option<(usize, u8)> {
    let n = data.len().checked_sub(1)?;
    let (body, pec) = data.split_at(n);
    Some((body.len(), pec[0]))
}

pub fn clamp_len(n: usize) -> usize {
    n.clamp(2, 9)
}

pub fn abs_diff_u8(a: u8, b: u8) -> u8 {
    a.abs_diff(b)
}

pub fn bool_then(x: u8) -> Option<u8> {
    (x > 3).then(|| x - 3)
}

pub fn option_zip_xor(a: Option<u8>, b: Option<u8>) -> Option<u8> {
    a.zip(b).map(|(x, y)| x ^ y)
}

pub fn result_and_then(data: &[u8]) -> Result<u8, u8> {
    data.first().copied().ok_or(1).and_then(|f| if f & 1 == 0 { Ok(f) } else { Err(2) })
}

pub struct Ident {
    eid: core::cell::Cell<Option<core::num::NonZeroU8>>,
}

impl Ident {
    pub fn get(&self) -> u8 {
        self.eid.get().map_or(0, core::num::NonZeroU8::get)
    }
    pub fn set(&self, v: u8) {
        self.eid.set(core::num::NonZeroU8::new(v));
    }
}

pub fn nonzero_cell_roundtrip(id: &Ident, v: u8) -> (u8, u8) {
    let before = id.get();
    id.set(v);
    (before, id.get())
}

pub fn rem_div_pow2(x: u8) -> (u8, u8) {
    (x % 8, x / 16)
}

pub fn dyn_sink(out: &mut [u8; 4], a: &[u8; 2], b: &[u8; 2]) -> usize {
    fn feed(sink: &mut dyn FnMut(&[u8]), a: &[u8], b: &[u8]) {
        sink(a);
        sink(b);
    }
    let mut pos = 0;
    feed(
        &mut |part: &[u8]| {
            out[pos..pos + part.len()].copy_from_slice(part);
            pos += part.len();
        },
        a,
        b,
    );
    pos
}

pub fn len_sum_plus(a: &[u8], b: &[u8]) -> usize {
    5 + a.len() + b.len() + 1
}

pub fn wrapping_rem_count(data: &[u8]) -> Option<u8> {
    if data.len() < 4 || data.len() > 259 {
        return None;
    }
    let counted = core::num::Wrapping(data.len()) - core::num::Wrapping(4);
    Some((counted.0 % (1 << u8::BITS)) as u8)
}

pub fn rem_256_vs_cast(n: usize) -> bool {
    (n % 256) as u8 == n as u8
}

pub fn strip_pec(data: &[u8], pec: u8) -> Option<usize> {
    data.strip_suffix(&[pec]).map(|body| body.len())
}

pub fn flatten_try_fold(a: Option<&[u8]>, b: &[u8]) -> Option<usize> {
    [a, Some(b)].into_iter().flatten().try_fold(0usize, |acc, p| acc.checked_add(p.len()))
}

pub fn flatten_find_map(a: Option<&[u8]>, b: &[u8]) -> Option<u8> {
    [a, Some(b)].into_iter().flatten().find_map(|p| p.first().copied())
}

pub fn for_each_dyn(out: &mut [u8; 4], a: &[u8; 2], b: Option<&[u8; 2]>) -> usize {
    let mut pos = 0;
    let sink: &mut dyn FnMut(&[u8]) = &mut |part: &[u8]| {
        out[pos..pos + part.len()].copy_from_slice(part);
        pos += part.len();
    };
    [Some(&a[..]), b.map(|x| &x[..])].into_iter().flatten().for_each(sink);
    pos
}

pub fn array_iter_nth_last(a: [u8; 4]) -> (Option<u8>, Option<u8>, usize) {
    (a.into_iter().nth(2), a.into_iter().last(), a.into_iter().count())
}

pub fn slice_iter_nth_skip_while(a: &[u8; 5]) -> (Option<&u8>, usize) {
    (a.iter().nth(3), a.iter().skip_while(|b| **b == 0).count())
}

pub fn shifted_guard(out: &mut [u8; 4], data: &[u8]) -> Result<usize, ()> {
    let total = data.len().saturating_add(5);
    if total >> u8::BITS != 0 {
        return Err(());
    }
    out[2] = total as u8;
    Ok(total)
}

pub fn shl_as_mul(buf: &mut [u8; 29], entries: &[[u8; 4]]) -> Result<usize, ()> {
    let n = entries.len();
    buf[0] = (n & usize::from(u8::MAX)) as u8;
    if n.saturating_mul(4) > 28 {
        return Err(());
    }
    for (i, e) in entries.iter().enumerate() {
        buf[1 + (i << 2)..1 + (i << 2) + 4].copy_from_slice(e);
    }
    Ok((n << 2) + 1)
}

pub struct Sect<'a> {
    head: [u8; 1],
    extra: Option<&'a [u8]>,
    data: &'a [u8],
}

impl<'a> Sect<'a> {
    pub fn new(h: u8, extra: Option<&'a [u8]>, data: &'a [u8]) -> Self {
        Sect { head: [h], extra, data }
    }
    fn sections(&self, sink: &mut dyn FnMut(&[u8])) {
        let head: &[u8] = &self.head;
        [Some(head), self.extra, Some(self.data)].into_iter().flatten().for_each(sink);
    }
    fn outer(&self, sink: &mut dyn FnMut(&[u8])) {
        sink(&[0xAA]);
        self.sections(sink);
    }
    pub fn total(&self) -> usize {
        let mut size = 0;
        self.outer(&mut |s| size += s.len());
        size
    }
}

pub fn dyn_sink_passed_down(h: u8, extra: &Option<&[u8]>, data: &[u8]) -> usize {
    Sect::new(h, *extra, data).total()
}

pub fn dyn_direct_twice(a: &[u8]) -> usize {
    fn go(sink: &mut dyn FnMut(&[u8]), a: &[u8]) {
        sink(&[0xAA]);
        sink(a);
    }
    let mut size = 0;
    go(&mut |s| size += s.len(), a);
    size
}

pub fn dyn_direct_then_inner(a: &[u8]) -> usize {
    fn inner(sink: &mut dyn FnMut(&[u8]), a: &[u8]) {
        sink(a);
    }
    fn go(sink: &mut dyn FnMut(&[u8]), a: &[u8]) {
        sink(&[0xAA]);
        inner(sink, a);
    }
    let mut size = 0;
    go(&mut |s| size += s.len(), a);
    size
}

pub fn sections_only(h: u8, extra: &Option<&[u8]>, data: &[u8]) -> usize {
    let s = Sect::new(h, *extra, data);
    let mut size = 0;
    s.sections(&mut |p| size += p.len());
    size
}

pub fn flatten3_for_each_closure(h: &[u8; 1], extra: &Option<&[u8]>, data: &[u8]) -> usize {
    let mut size = 0;
    [Some(&h[..]), *extra, Some(data)].into_iter().flatten().for_each(|p| size += p.len());
    size
}

// ---- round 6 idioms -----------------------------------------------------------------------------------------
fn h_one(x: u8) -> u8 {
    x.wrapping_add(1)
}
fn h_two(x: u8) -> u8 {
    x ^ 0x55
}

pub fn fn_pointer_table(code: u8, x: u8) -> Option<u8> {
    const TABLE: [(u8, fn(u8) -> u8); 2] = [(1, h_one), (2, h_two)];
    TABLE.iter().find(|(c, _)| *c == code).map(|(_, f)| f(x))
}

pub fn fn_pointer_var(flag: bool, x: u8) -> u8 {
    let f: fn(u8) -> u8 = if flag { h_one } else { h_two };
    f(x)
}

const HDR: core::ops::Range<usize> = 0..4;
const BODY_AT: usize = 4;

pub fn const_range_index(buf: &mut [u8; 8], h: [u8; 4], b: u8) {
    buf[HDR].copy_from_slice(&h);
    buf[BODY_AT] = b;
}

pub fn loop_match_next(data: &[u8; 4]) -> u8 {
    let mut it = data.iter();
    let mut acc = 0u8;
    loop {
        match it.next() {
            Some(b) if *b != 0 => acc ^= *b,
            Some(_) => continue,
            None => break,
        }
    }
    acc
}

pub fn while_index(buf: &mut [u8; 6], src: &[u8]) -> usize {
    let mut i = 0;
    while i < src.len() && i < buf.len() {
        buf[i] = src[i];
        i += 1;
    }
    i
}

pub fn recursive_sum(data: &[u8]) -> usize {
    fn go(d: &[u8], depth: usize) -> usize {
        match d.split_first() {
            Some((f, rest)) if depth < 4 => usize::from(*f & 1) + go(rest, depth + 1),
            _ => 0,
        }
    }
    go(data, 0)
}

pub fn closure_returning_closure(k: u8, x: u8) -> u8 {
    let make = |a: u8| move |b: u8| a ^ b;
    let f = make(k);
    f(x)
}

pub struct Parsed<'a> {
    pub kind: u8,
    pub rest: &'a [u8],
}

pub fn destructure_struct(data: &[u8]) -> Option<usize> {
    let p = match data {
        [k, rest @ ..] => Parsed { kind: *k, rest },
        [] => return None,
    };
    let Parsed { kind, rest } = p;
    Some(usize::from(kind) + rest.len())
}

pub fn ref_mut_pattern(buf: &mut [u8; 3], v: u8) {
    let [ref mut a, _, ref mut c] = *buf;
    *a = v;
    *c = v ^ 1;
}

pub fn u32_pack_extract(b: [u8; 4]) -> (u8, u16) {
    let w = u32::from_be_bytes(b);
    ((w >> 24) as u8, (w & 0xFFFF) as u16)
}

pub enum Step<'a> {
    Byte(u8),
    Bytes(&'a [u8]),
    Skip,
}

pub fn enum_steps(out: &mut [u8; 8], a: u8, tail: &[u8; 3]) -> usize {
    let steps = [Step::Byte(a), Step::Skip, Step::Bytes(tail), Step::Byte(0xFF)];
    let mut pos = 0;
    for s in &steps {
        match s {
            Step::Byte(b) => {
                out[pos] = *b;
                pos += 1;
            }
            Step::Bytes(bs) => {
                out[pos..pos + bs.len()].copy_from_slice(bs);
                pos += bs.len();
            }
            Step::Skip => {}
        }
    }
    pos
}

pub fn option_question(data: &[u8]) -> Option<u8> {
    let a = *data.first()?;
    let b = *data.get(usize::from(a & 3))?;
    a.checked_add(b)
}

pub fn wrapping_index(i: u8) -> u8 {
    const T: [u8; 4] = [9, 8, 7, 6];
    T[usize::from(i.wrapping_mul(3) % 4)]
}

pub fn sort_small(mut a: [u8; 3]) -> [u8; 3] {
    if a[0] > a[1] {
        a.swap(0, 1);
    }
    if a[1] > a[2] {
        a.swap(1, 2);
    }
    if a[0] > a[1] {
        a.swap(0, 1);
    }
    a
}

const SBOX: [u8; 256] = {
    let mut t = [0u8; 256];
    let mut i = 0;
    while i < 256 {
        t[i] = (i as u8).wrapping_mul(7) ^ 0x5A;
        i += 1;
    }
    t
};

pub fn table_fold(data: &[u8; 3]) -> u8 {
    data.iter().fold(0u8, |acc, b| SBOX[usize::from(acc ^ *b)])
}

pub fn table_single(x: u8) -> u8 {
    SBOX[usize::from(x)] ^ 1
}

pub fn split_checked(data: &[u8], n: usize) -> Option<(usize, u8)> {
    let (head, tail) = data.split_at_checked(n)?;
    Some((head.len(), *tail.first()?))
}

pub struct Holder {
    c: core::cell::Cell<u8>,
}

pub fn cell_default_from(v: u8) -> (u8, u8) {
    let a = Holder { c: core::cell::Cell::default() };
    let b = Holder { c: core::cell::Cell::from(v) };
    (a.c.get(), b.c.get())
}

// ---- round 8 idioms -----------------------------------------------------------------------------------------
use core::marker::PhantomData;

pub struct NoBody;
pub struct HasBody;
pub struct Builder<'a, S> {
    buf: &'a mut [u8],
    pos: usize,
    _s: PhantomData<S>,
}

impl<'a> Builder<'a, NoBody> {
    pub fn new(buf: &'a mut [u8]) -> Self {
        Builder { buf, pos: 0, _s: PhantomData }
    }
    pub fn header(self, h: [u8; 2]) -> Builder<'a, HasBody> {
        let Builder { buf, pos, .. } = self;
        buf[pos..pos + 2].copy_from_slice(&h);
        Builder { buf, pos: pos + 2, _s: PhantomData }
    }
}

impl<'a> Builder<'a, HasBody> {
    pub fn body(mut self, b: &[u8]) -> usize {
        self.buf[self.pos..self.pos + b.len()].copy_from_slice(b);
        self.pos += b.len();
        self.pos
    }
}

pub fn typestate_builder(buf: &mut [u8], h: [u8; 2], b: &[u8; 3]) -> usize {
    Builder::new(buf).header(h).body(b)
}

pub struct Parts<'a> {
    items: [Option<&'a [u8]>; 3],
    next: usize,
}

impl<'a> Iterator for Parts<'a> {
    type Item = &'a [u8];
    fn next(&mut self) -> Option<&'a [u8]> {
        while self.next < self.items.len() {
            let i = self.next;
            self.next += 1;
            if let Some(p) = self.items[i] {
                return Some(p);
            }
        }
        None
    }
}

pub fn custom_iterator(buf: &mut [u8], a: &[u8; 1], extra: &Option<&[u8]>, data: &[u8]) -> usize {
    let parts = Parts { items: [Some(&a[..]), *extra, Some(data)], next: 0 };
    let mut pos = 0;
    for p in parts {
        buf[pos..pos + p.len()].copy_from_slice(p);
        pos += p.len();
    }
    pos
}

pub fn cursor_take(buf: &mut [u8], h: &[u8; 4], b: u8) -> usize {
    let total = buf.len();
    let mut cursor = &mut buf[..];
    let (head, rest) = core::mem::take(&mut cursor).split_at_mut(4);
    head.copy_from_slice(h);
    cursor = rest;
    let (one, rest) = core::mem::take(&mut cursor).split_at_mut(1);
    one[0] = b;
    cursor = rest;
    total - cursor.len()
}

pub fn option_combinators(a: Option<u8>, b: Option<u8>) -> (u8, bool, Option<u8>) {
    (a.or(b).unwrap_or_default(), a.xor(b).is_some(), a.and(b).or_else(|| Some(7)))
}

pub fn option_transpose(x: Option<u8>) -> Result<Option<u8>, u8> {
    x.map(|v| if v < 0x80 { Ok(v) } else { Err(v) }).transpose()
}

pub fn option_take_field(o: &mut Option<u8>) -> u8 {
    o.take().map_or_else(|| 0xEE, |v| v ^ 1)
}

pub fn word_pack(version: u8, dest: u8, som: bool) -> [u8; 4] {
    let w: u32 = (u32::from(version & 0x0F) << 24) | (u32::from(dest) << 16) | (u32::from(som) << 7);
    w.to_be_bytes()
}

pub fn mask_from_not(n: u32, x: u8) -> u8 {
    let m = (!0u8).checked_shr(n).unwrap_or(0);
    x & m
}

pub fn identity_map(data: &[u8; 3]) -> u8 {
    data.iter().copied().map(core::convert::identity).fold(0, |a, b| a | b)
}

pub fn result_infallible(x: u8) -> u8 {
    let r: Result<u8, core::convert::Infallible> = Ok(x);
    match r {
        Ok(v) => v,
        Err(e) => match e {},
    }
}
