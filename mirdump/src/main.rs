// mirdump: a rustc_private driver that serialises the monomorphic MIR of one crate
// (selected by name) as JSON facts for the Python analyser.  No property logic here.
//
// Usage (wrapper mode): RUSTC_WORKSPACE_WRAPPER=mirdump MIRDUMP_CRATE=libmctp
//                       MIRDUMP_OUT=/path/mir.json cargo +nightly check --offline
#![feature(rustc_private)]

extern crate rustc_abi;
extern crate rustc_driver;
extern crate rustc_hir;
extern crate rustc_interface;
extern crate rustc_middle;
extern crate rustc_session;
extern crate rustc_span;
extern crate rustc_type_ir;

mod json;
use json::J;

use rustc_driver::{Callbacks, Compilation};
use rustc_hir::def::DefKind;
use rustc_hir::def_id::{DefId, LOCAL_CRATE};
use rustc_interface::interface::Compiler;
use rustc_middle::mir::{
    self, AggregateKind, AssertKind, BinOp, Body, BorrowKind, CastKind, Const, ConstValue,
    Operand, Place, ProjectionElem, Rvalue, StatementKind, TerminatorKind, UnOp,
};
use rustc_middle::ty::util::IntTypeExt;
use rustc_middle::ty::{self, EarlyBinder, GenericArgsRef, Instance, Ty, TyCtxt, TypingEnv};
use rustc_span::Span;
use std::collections::{BTreeMap, BTreeSet, VecDeque};

struct Dump {
    crate_name: String,
    out: String,
}

impl Callbacks for Dump {
    fn after_analysis<'tcx>(&mut self, _c: &Compiler, tcx: TyCtxt<'tcx>) -> Compilation {
        let name = tcx.crate_name(LOCAL_CRATE).to_string();
        if name != self.crate_name {
            return Compilation::Continue;
        }
        // Skip test harness builds of the same crate.
        if tcx.sess.opts.test {
            return Compilation::Continue;
        }
        let mut cx = Cx::new(tcx);
        let j = cx.run();
        let mut s = String::new();
        j.write(&mut s);
        s.push('\n');
        // one write per process
        std::fs::write(&self.out, s).expect("mirdump: cannot write output");
        Compilation::Continue
    }
}

struct Cx<'tcx> {
    tcx: TyCtxt<'tcx>,
    env: TypingEnv<'tcx>,
    adts: BTreeMap<String, J>,
    adt_queue: VecDeque<Ty<'tcx>>,
    adt_seen: BTreeSet<String>,
    inst_seen: BTreeSet<String>,
    inst_queue: VecDeque<Instance<'tcx>>,
    /// default bodies of overridden iterator-trait methods, under their own key (`...{default}`)
    default_queue: VecDeque<(String, Instance<'tcx>)>,
    instances: BTreeMap<String, J>,
}

fn s(x: impl Into<String>) -> J {
    J::Str(x.into())
}
fn n(x: impl std::fmt::Display) -> J {
    J::Num(x.to_string())
}
fn obj(v: Vec<(&str, J)>) -> J {
    J::Obj(v.into_iter().map(|(k, v)| (k.to_string(), v)).collect())
}

impl<'tcx> Cx<'tcx> {
    fn new(tcx: TyCtxt<'tcx>) -> Self {
        Cx {
            tcx,
            env: TypingEnv::fully_monomorphized(),
            adts: BTreeMap::new(),
            adt_queue: VecDeque::new(),
            adt_seen: BTreeSet::new(),
            inst_seen: BTreeSet::new(),
            inst_queue: VecDeque::new(),
            default_queue: VecDeque::new(),
            instances: BTreeMap::new(),
        }
    }

    fn span(&self, sp: Span) -> J {
        let sm = self.tcx.sess.source_map();
        let fmt = |sp: Span| {
            let lo = sm.lookup_char_pos(sp.lo());
            format!("{}:{}:{}", lo.file.name.prefer_local_unconditionally(), lo.line, lo.col.0 + 1)
        };
        if sp.from_expansion() {
            let cs = sp.source_callsite();
            obj(vec![("at", s(fmt(sp))), ("callsite", s(fmt(cs))), ("exp", J::Bool(true))])
        } else {
            obj(vec![("at", s(fmt(sp)))])
        }
    }

    fn inst_key(&self, inst: Instance<'tcx>) -> String {
        let def = inst.def_id();
        let base = self.tcx.def_path_str_with_args(def, inst.args);
        match inst.def {
            ty::InstanceKind::Item(_) => base,
            other => format!("{}{{{}}}", base, shim_kind(&other)),
        }
    }

    fn enqueue(&mut self, inst: Instance<'tcx>) -> String {
        let k = self.inst_key(inst);
        if self.inst_seen.insert(k.clone()) {
            self.inst_queue.push_back(inst);
        }
        k
    }

    // ---------------------------------------------------------------- types
    fn ty(&mut self, t: Ty<'tcx>) -> J {
        use rustc_type_ir::TyKind::*;
        match t.kind() {
            Bool => obj(vec![("k", s("bool"))]),
            Char => obj(vec![("k", s("char"))]),
            Int(i) => {
                let bits = i.bit_width().unwrap_or(self.ptr_bits());
                obj(vec![("k", s("int")), ("bits", n(bits)), ("signed", J::Bool(true)),
                         ("name", s(i.name_str()))])
            }
            Uint(u) => {
                let bits = u.bit_width().unwrap_or(self.ptr_bits());
                obj(vec![("k", s("int")), ("bits", n(bits)), ("signed", J::Bool(false)),
                         ("name", s(u.name_str()))])
            }
            Never => obj(vec![("k", s("never"))]),
            Str => obj(vec![("k", s("str"))]),
            Tuple(elems) => {
                if elems.is_empty() {
                    obj(vec![("k", s("unit"))])
                } else {
                    let v = elems.iter().map(|e| self.ty(e)).collect();
                    obj(vec![("k", s("tuple")), ("elems", J::Arr(v))])
                }
            }
            Ref(_, inner, m) => obj(vec![("k", s("ref")), ("mut", J::Bool(m.is_mut())),
                                         ("to", self.ty(*inner))]),
            RawPtr(inner, m) => obj(vec![("k", s("ptr")), ("mut", J::Bool(m.is_mut())),
                                         ("to", self.ty(*inner))]),
            Slice(e) => obj(vec![("k", s("slice")), ("elem", self.ty(*e))]),
            Array(e, len) => {
                let l = len.try_to_target_usize(self.tcx);
                obj(vec![("k", s("array")), ("elem", self.ty(*e)),
                         ("len", l.map(n).unwrap_or(J::Null))])
            }
            Adt(def, _args) => {
                let id = format!("{}", t);
                if self.adt_seen.insert(id.clone()) {
                    self.adt_queue.push_back(t);
                }
                obj(vec![("k", s("adt")), ("id", s(id)),
                         ("path", s(self.tcx.def_path_str(def.did())))])
            }
            FnDef(def, args) => obj(vec![("k", s("fndef")),
                                         ("path", s(self.tcx.def_path_str_with_args(*def, args)))]),
            FnPtr(..) => obj(vec![("k", s("fnptr"))]),
            Closure(def, _) => obj(vec![("k", s("closure")),
                                        ("path", s(self.tcx.def_path_str(*def)))]),
            _ => obj(vec![("k", s("other")), ("dbg", s(format!("{:?}", t)))]),
        }
    }

    fn ptr_bits(&self) -> u64 {
        self.tcx.data_layout.pointer_size().bits()
    }

    fn drain_adts(&mut self) {
        while let Some(t) = self.adt_queue.pop_front() {
            let id = format!("{}", t);
            let ty::TyKind::Adt(def, args) = t.kind() else { continue };
            let kind = if def.is_enum() {
                "enum"
            } else if def.is_union() {
                "union"
            } else {
                "struct"
            };
            let mut variants = Vec::new();
            let discrs: Vec<(u32, u128)> = if def.is_enum() {
                def.discriminants(self.tcx).map(|(i, d)| (i.as_u32(), d.val)).collect()
            } else {
                vec![(0, 0)]
            };
            for (vi, v) in def.variants().iter_enumerated() {
                let mut fields = Vec::new();
                for f in v.fields.iter() {
                    let fty = f.ty(self.tcx, args);
                    let fty = self
                        .tcx
                        .try_normalize_erasing_regions(self.env, ty::Unnormalized::new_wip(fty))
                        .unwrap_or(fty);
                    let vis = match f.vis {
                        ty::Visibility::Public => "pub".to_string(),
                        ty::Visibility::Restricted(d) => {
                            format!("restricted:{}", self.tcx.def_path_str(d))
                        }
                    };
                    fields.push(obj(vec![
                        ("name", s(f.name.to_string())),
                        ("ty", self.ty(fty)),
                        ("vis", s(vis)),
                    ]));
                }
                let d = discrs.iter().find(|(i, _)| *i == vi.as_u32()).map(|x| x.1).unwrap_or(0);
                variants.push(obj(vec![
                    ("name", s(v.name.to_string())),
                    ("discr", s(d.to_string())),
                    ("fields", J::Arr(fields)),
                ]));
            }
            let repr_bits = if def.is_enum() {
                let it = def.repr().discr_type();
                let t = it.to_ty(self.tcx);
                Some(self.ty(t))
            } else {
                None
            };
            let j = obj(vec![
                ("kind", s(kind)),
                ("path", s(self.tcx.def_path_str(def.did()))),
                ("local", J::Bool(def.did().is_local())),
                ("variants", J::Arr(variants)),
                ("discr_ty", repr_bits.unwrap_or(J::Null)),
            ]);
            self.adts.insert(id, j);
        }
    }

    // ---------------------------------------------------------------- consts
    fn constant(&mut self, owner: Instance<'tcx>, c: &mir::ConstOperand<'tcx>) -> J {
        let tcx = self.tcx;
        let cty = c.const_.ty();
        let tyj = self.ty(cty);
        // function items
        if let ty::TyKind::FnDef(def, args) = cty.kind() {
            let callee = self.resolve(*def, args);
            return obj(vec![("k", s("fn")), ("callee", callee), ("ty", tyj)]);
        }
        // promoted
        if let Const::Unevaluated(u, _) = c.const_ {
            if let Some(p) = u.promoted {
                let _ = owner;
                return obj(vec![("k", s("promoted")), ("idx", n(p.as_u32())), ("ty", tyj)]);
            }
        }
        let is_aggregate = matches!(cty.kind(), ty::TyKind::Adt(..) | ty::TyKind::Tuple(..) | ty::TyKind::Array(..));
        if is_aggregate {
            if let Ok(val) = c.const_.eval(tcx, self.env, c.span) {
                if let Some(j) = self.const_value_agg(val, cty) {
                    return j;
                }
            }
        }
        if let Some(si) = c.const_.try_eval_scalar_int(tcx, self.env) {
            let size = si.size();
            let v = si.to_bits(size);
            return obj(vec![("k", s("int")), ("v", s(v.to_string())),
                            ("bits", n(size.bits())), ("ty", tyj)]);
        }
        if let Ok(val) = c.const_.eval(tcx, self.env, c.span) {
            if let Some(j) = self.const_value(val, cty, 0) {
                return j;
            }
            if let Some(j) = self.const_ref(val, cty) {
                return j;
            }
            if let Ok(p) = std::env::var("MIRDUMP_DEBUG") {
                use std::io::Write;
                if let Ok(mut f) = std::fs::OpenOptions::new().create(true).append(true).open(p) {
                    let _ = writeln!(f, "unhandled constant {:?} : {:?} = {:?}", c.const_, cty, val);
                }
            }
        }
        obj(vec![("k", s("unknown")), ("dbg", s(format!("{:?}", c.const_))), ("ty", tyj)])
    }

    /// A fully evaluated constant: scalars, zero-sized values, strings, and aggregates
    /// (arrays, tuples, structs, enum values) destructured field by field.
    fn const_value(&mut self, val: ConstValue, ty: Ty<'tcx>, depth: usize) -> Option<J> {
        let tcx = self.tcx;
        let tyj = self.ty(ty);
        if depth > 6 {
            return None;
        }
        match val {
            ConstValue::Scalar(rustc_middle::mir::interpret::Scalar::Int(si)) => {
                let size = si.size();
                let v = si.to_bits(size);
                return Some(obj(vec![("k", s("int")), ("v", s(v.to_string())),
                                     ("bits", n(size.bits())), ("ty", tyj)]));
            }
            ConstValue::Scalar(rustc_middle::mir::interpret::Scalar::Ptr(ptr, _)) if matches!(ty.kind(), ty::TyKind::FnPtr(..)) => {
                // a function pointer stored in a constant: name the function it points to
                let (prov, _off) = ptr.into_raw_parts();
                if let Some(rustc_middle::mir::interpret::GlobalAlloc::Function { instance }) = tcx.try_get_global_alloc(prov.alloc_id()) {
                    let callee = self.resolve(instance.def_id(), instance.args);
                    return Some(obj(vec![("k", s("fn")), ("callee", callee), ("ty", tyj)]));
                }
                return None;
            }
            ConstValue::ZeroSized => return Some(obj(vec![("k", s("zst")), ("ty", tyj)])),
            ConstValue::Slice { .. } => {
                if let Some(bytes) = val.try_get_slice_bytes_for_diagnostics(tcx) {
                    return Some(obj(vec![("k", s("str")),
                                         ("v", s(String::from_utf8_lossy(bytes).to_string())),
                                         ("ty", tyj)]));
                }
                return None;
            }
            _ => {}
        }
        let aggregate = match ty.kind() {
            ty::TyKind::Array(..) | ty::TyKind::Tuple(..) => true,
            ty::TyKind::Adt(def, _) => !def.is_union(),
            _ => false,
        };
        if !aggregate {
            return None;
        }
        let d = tcx.try_destructure_mir_constant_for_user_output(val, ty)?;
        let mut fields = Vec::new();
        for (fv, fty) in d.fields.iter() {
            fields.push(self.const_value(*fv, *fty, depth + 1)?);
        }
        Some(obj(vec![
            ("k", s("agg")),
            ("variant", d.variant.map(|v| n(v.as_u32())).unwrap_or(J::Null)),
            ("fields", J::Arr(fields)),
            ("ty", tyj),
        ]))
    }

    /// A constant of reference type (`&[T; N]`, `&[T]`, `&Struct`: a named `const`/`static` table used by reference):
    /// the pointee is read from its allocation and destructured like an aggregate constant.
    fn const_ref(&mut self, val: ConstValue, ty: Ty<'tcx>) -> Option<J> {
        use rustc_middle::mir::interpret::{GlobalAlloc, Scalar};
        let tcx = self.tcx;
        let pointee = match ty.kind() {
            ty::TyKind::Ref(_, inner, _) => *inner,
            _ => return None,
        };
        let slice_elem = match pointee.kind() {
            ty::TyKind::Slice(e) => Some(*e),
            _ => None,
        };
        // memory that can be read now and for ever: constant allocations and immutable, Freeze statics
        let readable = |alloc_id: rustc_middle::mir::interpret::AllocId| -> Option<rustc_middle::mir::interpret::AllocId> {
            match tcx.try_get_global_alloc(alloc_id)? {
                GlobalAlloc::Memory(_) => Some(alloc_id),
                GlobalAlloc::Static(did) => {
                    if tcx.is_mutable_static(did) || !pointee.is_freeze(tcx, self.env) {
                        return None;
                    }
                    let alloc = tcx.eval_static_initializer(did).ok()?;
                    Some(tcx.reserve_and_set_memory_alloc(alloc))
                }
                _ => None,
            }
        };
        let (inner_val, inner_ty) = match val {
            ConstValue::Scalar(Scalar::Ptr(ptr, _)) if slice_elem.is_none() => {
                let (prov, offset) = ptr.into_raw_parts();
                (ConstValue::Indirect { alloc_id: readable(prov.alloc_id())?, offset }, pointee)
            }
            ConstValue::Slice { alloc_id, meta } => {
                (ConstValue::Indirect { alloc_id: readable(alloc_id)?, offset: rustc_abi::Size::ZERO }, Ty::new_array(tcx, slice_elem?, meta))
            }
            ConstValue::Indirect { alloc_id, offset } => {
                // the reference itself is stored in memory: read the (possibly wide) pointer out of the allocation
                let alloc = match tcx.try_get_global_alloc(alloc_id)? {
                    GlobalAlloc::Memory(a) => a,
                    _ => return None,
                };
                let a = alloc.inner();
                let psize = tcx.data_layout.pointer_size();
                let rd = |at: rustc_abi::Size| -> Option<u64> {
                    let r = at.bytes_usize()..(at + psize).bytes_usize();
                    let b = a.inspect_with_uninit_and_ptr_outside_interpreter(r);
                    if b.len() != 8 {
                        return None;
                    }
                    let mut x = [0u8; 8];
                    x.copy_from_slice(b);
                    Some(match tcx.data_layout.endian {
                        rustc_abi::Endian::Little => u64::from_le_bytes(x),
                        rustc_abi::Endian::Big => u64::from_be_bytes(x),
                    })
                };
                let prov = *a.provenance().ptrs().get(&offset)?;
                let addr = rd(offset)?;
                let target = readable(prov.alloc_id())?;
                let inner_ty = match slice_elem {
                    Some(e) => Ty::new_array(tcx, e, rd(offset + psize)?),
                    None => pointee,
                };
                (ConstValue::Indirect { alloc_id: target, offset: rustc_abi::Size::from_bytes(addr) }, inner_ty)
            }
            _ => return None,
        };
        let is_agg = matches!(inner_ty.kind(), ty::TyKind::Adt(..) | ty::TyKind::Tuple(..) | ty::TyKind::Array(..));
        let inner = if is_agg { self.const_value_agg(inner_val, inner_ty).or_else(|| self.const_value(inner_val, inner_ty, 1)) } else { self.const_value(inner_val, inner_ty, 1) }?;
        let tyj = self.ty(ty);
        Some(obj(vec![("k", s("ref")), ("to", inner), ("slice", J::Bool(slice_elem.is_some())), ("ty", tyj)]))
    }

    /// Aggregate-typed constants are always destructured (even when they fit in a scalar).
    fn const_value_agg(&mut self, val: ConstValue, ty: Ty<'tcx>) -> Option<J> {
        let tcx = self.tcx;
        if let ty::TyKind::Adt(def, _) = ty.kind() {
            if def.is_union() {
                return None;
            }
        }
        if matches!(val, ConstValue::ZeroSized) {
            let tyj = self.ty(ty);
            return Some(obj(vec![("k", s("zst")), ("ty", tyj)]));
        }
        let d = tcx.try_destructure_mir_constant_for_user_output(val, ty)?;
        let mut fields = Vec::new();
        for (fv, fty) in d.fields.iter() {
            let is_agg = matches!(fty.kind(), ty::TyKind::Adt(..) | ty::TyKind::Tuple(..) | ty::TyKind::Array(..));
            let fj = if is_agg { self.const_value_agg(*fv, *fty).or_else(|| self.const_value(*fv, *fty, 1)) } else { self.const_value(*fv, *fty, 1) };
            fields.push(fj?);
        }
        let tyj = self.ty(ty);
        Some(obj(vec![
            ("k", s("agg")),
            ("variant", d.variant.map(|v| n(v.as_u32())).unwrap_or(J::Null)),
            ("fields", J::Arr(fields)),
            ("ty", tyj),
        ]))
    }

    fn resolve(&mut self, def: DefId, args: GenericArgsRef<'tcx>) -> J {
        let tcx = self.tcx;
        let path = tcx.def_path_str(def);
        let full = tcx.def_path_str_with_args(def, args);
        match Instance::try_resolve(tcx, self.env, def, args) {
            Ok(Some(inst)) => {
                let has_mir = match inst.def {
                    ty::InstanceKind::Item(d) => tcx.is_mir_available(d),
                    ty::InstanceKind::Intrinsic(_) | ty::InstanceKind::Virtual(..) => false,
                    _ => true,
                };
                let rpath = tcx.def_path_str(inst.def_id());
                let key = if has_mir { self.enqueue(inst) } else { self.inst_key(inst) };
                // A provided method of one of core's iterator traits that the receiver's type overrides: also emit the
                // trait's default body for the same type arguments.  It is written in terms of `next()` / `next_back()`,
                // so an iterator the analyser models only needs a model of those.
                let mut default_key = J::Null;
                if inst.def_id() != def {
                    if let Some(tr) = tcx.trait_of_assoc(def) {
                        let tp = tcx.def_path_str(tr);
                        if tp.starts_with("core::iter::") && tcx.defaultness(def).has_value() && tcx.is_mir_available(def) {
                            let dinst = Instance::new_raw(def, args);
                            let k = format!("{}{{default}}", self.inst_key(dinst));
                            if self.inst_seen.insert(k.clone()) {
                                self.default_queue.push_back((k.clone(), dinst));
                            }
                            default_key = s(k);
                        }
                    }
                }
                obj(vec![
                    ("default_key", default_key),
                    ("key", s(key)),
                    ("path", s(rpath)),
                    ("decl_path", s(path)),
                    ("decl_full", s(full)),
                    ("local", J::Bool(inst.def_id().is_local())),
                    ("has_mir", J::Bool(has_mir)),
                    ("kind", s(shim_kind(&inst.def))),
                    ("crate", s(tcx.crate_name(inst.def_id().krate).to_string())),
                ])
            }
            _ => obj(vec![
                ("key", J::Null),
                ("path", s(path.clone())),
                ("decl_path", s(path)),
                ("decl_full", s(full)),
                ("local", J::Bool(def.is_local())),
                ("has_mir", J::Bool(false)),
                ("kind", s("unresolved")),
                ("crate", s(tcx.crate_name(def.krate).to_string())),
            ]),
        }
    }

    // ---------------------------------------------------------------- MIR
    fn place(&mut self, p: &Place<'tcx>) -> J {
        let mut proj = Vec::new();
        for e in p.projection.iter() {
            proj.push(match e {
                ProjectionElem::Deref => obj(vec![("k", s("deref"))]),
                ProjectionElem::Field(f, t) => {
                    obj(vec![("k", s("field")), ("i", n(f.as_u32())), ("ty", self.ty(t))])
                }
                ProjectionElem::Index(l) => obj(vec![("k", s("index")), ("local", n(l.as_u32()))]),
                ProjectionElem::ConstantIndex { offset, min_length, from_end } => obj(vec![
                    ("k", s("constant_index")),
                    ("offset", n(offset)),
                    ("min_length", n(min_length)),
                    ("from_end", J::Bool(from_end)),
                ]),
                ProjectionElem::Subslice { from, to, from_end } => obj(vec![
                    ("k", s("subslice")),
                    ("from", n(from)),
                    ("to", n(to)),
                    ("from_end", J::Bool(from_end)),
                ]),
                ProjectionElem::Downcast(_, v) => {
                    obj(vec![("k", s("downcast")), ("variant", n(v.as_u32()))])
                }
                other => obj(vec![("k", s("other")), ("dbg", s(format!("{:?}", other)))]),
            });
        }
        obj(vec![("local", n(p.local.as_u32())), ("proj", J::Arr(proj))])
    }

    fn operand(&mut self, owner: Instance<'tcx>, body: &Body<'tcx>, o: &Operand<'tcx>) -> J {
        match o {
            Operand::Copy(p) => obj(vec![("k", s("copy")), ("place", self.place(p)),
                                          ("ty", self.ty(o.ty(&body.local_decls, self.tcx)))]),
            Operand::Move(p) => obj(vec![("k", s("move")), ("place", self.place(p)),
                                          ("ty", self.ty(o.ty(&body.local_decls, self.tcx)))]),
            Operand::Constant(c) => {
                let cj = self.constant(owner, c);
                obj(vec![("k", s("const")), ("c", cj)])
            }
            Operand::RuntimeChecks(rc) => obj(vec![("k", s("runtime_checks")), ("which", s(format!("{:?}", rc)))]),
            #[allow(unreachable_patterns)]
            other => obj(vec![("k", s("other")), ("dbg", s(format!("{:?}", other)))]),
        }
    }

    fn rvalue(&mut self, owner: Instance<'tcx>, body: &Body<'tcx>, r: &Rvalue<'tcx>) -> J {
        let tcx = self.tcx;
        let rty = r.ty(&body.local_decls, tcx);
        let tyj = self.ty(rty);
        let mut v: Vec<(&str, J)> = match r {
            Rvalue::Use(o, _) => vec![("k", s("use")), ("op", self.operand(owner, body, o))],
            Rvalue::Repeat(o, c) => vec![
                ("k", s("repeat")),
                ("op", self.operand(owner, body, o)),
                ("count", c.try_to_target_usize(tcx).map(n).unwrap_or(J::Null)),
            ],
            Rvalue::Ref(_, bk, p) => {
                let m = match bk {
                    BorrowKind::Shared => "shared",
                    BorrowKind::Fake(_) => "fake",
                    BorrowKind::Mut { .. } => "mut",
                };
                vec![("k", s("ref")), ("bk", s(m)), ("place", self.place(p))]
            }
            Rvalue::RawPtr(k, p) => vec![("k", s("rawptr")), ("rk", s(format!("{:?}", k))),
                                         ("place", self.place(p))],
            Rvalue::Cast(ck, o, t) => {
                let kind = match ck {
                    CastKind::IntToInt => "IntToInt".to_string(),
                    CastKind::PointerCoercion(pc, _) => format!("PointerCoercion({:?})", pc),
                    other => format!("{:?}", other),
                };
                let src = o.ty(&body.local_decls, tcx);
                vec![
                    ("k", s("cast")),
                    ("ck", s(kind)),
                    ("op", self.operand(owner, body, o)),
                    ("src_ty", self.ty(src)),
                    ("to", self.ty(*t)),
                ]
            }
            Rvalue::BinaryOp(op, ab) => {
                let (a, b) = &**ab;
                let lt = a.ty(&body.local_decls, tcx);
                let rt = b.ty(&body.local_decls, tcx);
                vec![
                    ("k", s("binop")),
                    ("op", s(binop_name(*op))),
                    ("a", self.operand(owner, body, a)),
                    ("b", self.operand(owner, body, b)),
                    ("a_ty", self.ty(lt)),
                    ("b_ty", self.ty(rt)),
                ]
            }
            Rvalue::UnaryOp(op, a) => {
                let at = a.ty(&body.local_decls, tcx);
                let name = match op {
                    UnOp::Not => "Not",
                    UnOp::Neg => "Neg",
                    UnOp::PtrMetadata => "PtrMetadata",
                };
                vec![("k", s("unop")), ("op", s(name)), ("a", self.operand(owner, body, a)),
                     ("a_ty", self.ty(at))]
            }
            Rvalue::Discriminant(p) => {
                let pt = p.ty(&body.local_decls, tcx).ty;
                vec![("k", s("discriminant")), ("place", self.place(p)), ("of", self.ty(pt))]
            }
            Rvalue::Aggregate(kind, ops) => {
                let opsj: Vec<J> = ops.iter().map(|o| self.operand(owner, body, o)).collect();
                let ak = match &**kind {
                    AggregateKind::Array(_) => obj(vec![("k", s("array"))]),
                    AggregateKind::Tuple => obj(vec![("k", s("tuple"))]),
                    AggregateKind::Adt(def, variant, _args, _, active) => obj(vec![
                        ("k", s("adt")),
                        ("path", s(tcx.def_path_str(*def))),
                        ("variant", n(variant.as_u32())),
                        ("union_field", active.map(|f| n(f.as_u32())).unwrap_or(J::Null)),
                    ]),
                    AggregateKind::Closure(def, cargs) => {
                        // the bodies are monomorphic, so this names the closure's own instance; it is enqueued so that
                        // a closure reached only through a trait object still has its MIR in the fact file
                        let key = self.enqueue(Instance::new_raw(*def, cargs));
                        obj(vec![
                            ("k", s("closure")),
                            ("path", s(tcx.def_path_str(*def))),
                            ("key", s(key)),
                        ])
                    }
                    other => obj(vec![("k", s("other")), ("dbg", s(format!("{:?}", other)))]),
                };
                vec![("k", s("aggregate")), ("ak", ak), ("ops", J::Arr(opsj))]
            }
            Rvalue::CopyForDeref(p) => vec![("k", s("copy_for_deref")), ("place", self.place(p))],
            other => vec![("k", s("other")), ("dbg", s(format!("{:?}", other)))],
        };
        v.push(("ty", tyj));
        obj(v)
    }

    fn body(&mut self, owner: Instance<'tcx>, body: &Body<'tcx>) -> J {
        let tcx = self.tcx;
        let mut locals = Vec::new();
        for d in body.local_decls.iter() {
            locals.push(self.ty(d.ty));
        }
        let mut names = Vec::new();
        for vdi in body.var_debug_info.iter() {
            if let mir::VarDebugInfoContents::Place(p) = &vdi.value {
                if p.projection.is_empty() {
                    names.push(J::Arr(vec![n(p.local.as_u32()), s(vdi.name.to_string())]));
                }
            }
        }
        let mut blocks = Vec::new();
        for (_bb, data) in body.basic_blocks.iter_enumerated() {
            let mut stmts = Vec::new();
            for st in data.statements.iter() {
                let sp = self.span(st.source_info.span);
                let j = match &st.kind {
                    StatementKind::Assign(b) => {
                        let (p, r) = &**b;
                        obj(vec![("k", s("assign")), ("place", self.place(p)),
                                 ("rv", self.rvalue(owner, body, r)), ("span", sp)])
                    }
                    StatementKind::SetDiscriminant { place, variant_index } => obj(vec![
                        ("k", s("set_discriminant")),
                        ("place", self.place(place)),
                        ("variant", n(variant_index.as_u32())),
                        ("span", sp),
                    ]),
                    StatementKind::StorageLive(_)
                    | StatementKind::StorageDead(_)
                    | StatementKind::FakeRead(_)
                    | StatementKind::PlaceMention(_)
                    | StatementKind::AscribeUserType(..)
                    | StatementKind::Coverage(_)
                    | StatementKind::ConstEvalCounter
                    | StatementKind::BackwardIncompatibleDropHint { .. }
                    | StatementKind::Nop => continue,
                    StatementKind::Intrinsic(i) => match &**i {
                        mir::NonDivergingIntrinsic::Assume(_) => continue,
                        other => obj(vec![("k", s("other")), ("dbg", s(format!("{:?}", other))),
                                          ("span", sp)]),
                    },
                    #[allow(unreachable_patterns)]
                    other => obj(vec![("k", s("other")), ("dbg", s(format!("{:?}", other))),
                                      ("span", sp)]),
                };
                stmts.push(j);
            }
            let term = data.terminator();
            let tsp = self.span(term.source_info.span);
            let tj = match &term.kind {
                TerminatorKind::Goto { target } => {
                    obj(vec![("k", s("goto")), ("target", n(target.as_u32()))])
                }
                TerminatorKind::SwitchInt { discr, targets } => {
                    let dt = discr.ty(&body.local_decls, tcx);
                    let mut cases = Vec::new();
                    for (v, t) in targets.iter() {
                        cases.push(J::Arr(vec![s(v.to_string()), n(t.as_u32())]));
                    }
                    obj(vec![
                        ("k", s("switch")),
                        ("discr", self.operand(owner, body, discr)),
                        ("discr_ty", self.ty(dt)),
                        ("cases", J::Arr(cases)),
                        ("otherwise", n(targets.otherwise().as_u32())),
                    ])
                }
                TerminatorKind::Return => obj(vec![("k", s("return"))]),
                TerminatorKind::Unreachable => obj(vec![("k", s("unreachable"))]),
                TerminatorKind::UnwindResume => obj(vec![("k", s("resume"))]),
                TerminatorKind::UnwindTerminate(_) => obj(vec![("k", s("terminate"))]),
                TerminatorKind::Drop { place, target, .. } => obj(vec![
                    ("k", s("drop")),
                    ("place", self.place(place)),
                    ("target", n(target.as_u32())),
                ]),
                TerminatorKind::Call { func, args, destination, target, fn_span, .. } => {
                    let fty = func.ty(&body.local_decls, tcx);
                    let callee = match fty.kind() {
                        ty::TyKind::FnDef(def, ga) => self.resolve(*def, ga),
                        _ => obj(vec![("key", J::Null), ("path", s(format!("{:?}", fty))),
                                      ("has_mir", J::Bool(false)), ("kind", s("indirect")),
                                      ("local", J::Bool(false)), ("crate", s("?"))]),
                    };
                    let aj: Vec<J> =
                        args.iter().map(|a| self.operand(owner, body, &a.node)).collect();
                    // an indirect call (through a fn pointer): the operand that holds the pointer
                    let fop = match fty.kind() {
                        ty::TyKind::FnDef(..) => J::Null,
                        _ => self.operand(owner, body, func),
                    };
                    obj(vec![
                        ("k", s("call")),
                        ("fn_operand", fop),
                        ("callee", callee),
                        ("args", J::Arr(aj)),
                        ("dest", self.place(destination)),
                        ("target", target.map(|t| n(t.as_u32())).unwrap_or(J::Null)),
                        ("fn_span", self.span(*fn_span)),
                    ])
                }
                TerminatorKind::Assert { cond, expected, msg, target, .. } => {
                    let (kind, ops): (String, Vec<J>) = match &**msg {
                        AssertKind::BoundsCheck { len, index } => (
                            "BoundsCheck".into(),
                            vec![self.operand(owner, body, len), self.operand(owner, body, index)],
                        ),
                        AssertKind::Overflow(op, a, b) => (
                            format!("Overflow({})", binop_name(*op)),
                            vec![self.operand(owner, body, a), self.operand(owner, body, b)],
                        ),
                        AssertKind::OverflowNeg(a) => {
                            ("OverflowNeg".into(), vec![self.operand(owner, body, a)])
                        }
                        AssertKind::DivisionByZero(a) => {
                            ("DivisionByZero".into(), vec![self.operand(owner, body, a)])
                        }
                        AssertKind::RemainderByZero(a) => {
                            ("RemainderByZero".into(), vec![self.operand(owner, body, a)])
                        }
                        other => (format!("Other({:?})", other), vec![]),
                    };
                    obj(vec![
                        ("k", s("assert")),
                        ("cond", self.operand(owner, body, cond)),
                        ("expected", J::Bool(*expected)),
                        ("kind", s(kind)),
                        ("ops", J::Arr(ops)),
                        ("target", n(target.as_u32())),
                    ])
                }
                TerminatorKind::FalseEdge { real_target, .. } => {
                    obj(vec![("k", s("goto")), ("target", n(real_target.as_u32()))])
                }
                TerminatorKind::FalseUnwind { real_target, .. } => {
                    obj(vec![("k", s("goto")), ("target", n(real_target.as_u32()))])
                }
                other => obj(vec![("k", s("other")), ("dbg", s(format!("{:?}", other)))]),
            };
            blocks.push(obj(vec![
                ("stmts", J::Arr(stmts)),
                ("term", tj),
                ("span", tsp),
                ("cleanup", J::Bool(data.is_cleanup)),
            ]));
        }
        obj(vec![
            ("argc", n(body.arg_count)),
            ("locals", J::Arr(locals)),
            ("names", J::Arr(names)),
            ("blocks", J::Arr(blocks)),
        ])
    }

    fn instance(&mut self, inst: Instance<'tcx>) -> J {
        let tcx = self.tcx;
        let def = inst.def_id();
        let generic = tcx.instance_mir(inst.def);
        let body: Body<'tcx> = inst.instantiate_mir_and_normalize_erasing_regions(
            tcx,
            self.env,
            EarlyBinder::bind(generic.clone()),
        );
        let bj = self.body(inst, &body);
        let mut promoted = Vec::new();
        if let ty::InstanceKind::Item(d) = inst.def {
            if let Some(ld) = d.as_local() {
                if matches!(
                    tcx.def_kind(d),
                    DefKind::Fn | DefKind::AssocFn | DefKind::Closure
                ) {
                    let pm = tcx.promoted_mir(ld.to_def_id());
                    for pb in pm.iter() {
                        let pbody: Body<'tcx> = inst.instantiate_mir_and_normalize_erasing_regions(
                            tcx,
                            self.env,
                            EarlyBinder::bind(pb.clone()),
                        );
                        promoted.push(self.body(inst, &pbody));
                    }
                }
            } else if tcx.is_mir_available(d)
                && matches!(tcx.def_kind(d), DefKind::Fn | DefKind::AssocFn)
            {
                let pm = tcx.promoted_mir(d);
                for pb in pm.iter() {
                    let pbody: Body<'tcx> = inst.instantiate_mir_and_normalize_erasing_regions(
                        tcx,
                        self.env,
                        EarlyBinder::bind(pb.clone()),
                    );
                    promoted.push(self.body(inst, &pbody));
                }
            }
        }
        let vis = if matches!(tcx.def_kind(def), DefKind::Fn | DefKind::AssocFn) {
            match tcx.visibility(def) {
                ty::Visibility::Public => "pub".to_string(),
                ty::Visibility::Restricted(d) => format!("restricted:{}", tcx.def_path_str(d)),
            }
        } else {
            "n/a".to_string()
        };
        let reachable = def
            .as_local()
            .map(|l| tcx.effective_visibilities(()).is_reachable(l))
            .unwrap_or(false);
        let sig = {
            let fty = inst.ty(tcx, self.env);
            match fty.kind() {
                ty::TyKind::FnDef(..) => {
                    let sig = fty.fn_sig(tcx);
                    let sig = tcx.normalize_erasing_late_bound_regions(self.env, sig);
                    let ins: Vec<J> = sig.inputs().iter().map(|t| self.ty(*t)).collect();
                    obj(vec![("inputs", J::Arr(ins)), ("output", self.ty(sig.output()))])
                }
                _ => J::Null,
            }
        };
        obj(vec![
            ("path", s(tcx.def_path_str(def))),
            ("local", J::Bool(def.is_local())),
            ("crate", s(tcx.crate_name(def.krate).to_string())),
            ("kind", s(shim_kind(&inst.def))),
            ("vis", s(vis)),
            ("reachable", J::Bool(reachable)),
            ("span", self.span(tcx.def_span(def))),
            ("sig", sig),
            ("closure", J::Bool(matches!(tcx.def_kind(def), DefKind::Closure))),
            ("body", bj),
            ("promoted", J::Arr(promoted)),
        ])
    }

    // ---------------------------------------------------------------- roots
    fn run(&mut self) -> J {
        let tcx = self.tcx;
        let mut roots: Vec<J> = Vec::new();
        let mut bodies: Vec<J> = Vec::new();

        // concrete instantiations of local generic ADTs, found in the self types of
        // non-generic inherent impls (e.g. `impl MCTPSMBusHeader<[u8; 4]>`)
        let mut adt_insts: std::collections::HashMap<DefId, Vec<GenericArgsRef<'tcx>>> = std::collections::HashMap::new();
        let mut inherent_impls: Vec<DefId> = Vec::new();
        let mut trait_impls: Vec<DefId> = Vec::new();
        for id in tcx.hir_crate_items(()).definitions() {
            let d = id.to_def_id();
            if let DefKind::Impl { of_trait } = tcx.def_kind(d) {
                if of_trait {
                    trait_impls.push(d);
                } else {
                    inherent_impls.push(d);
                }
                let self_ty = tcx.type_of(d).instantiate_identity().skip_norm_wip();
                if !tcx.generics_of(d).requires_monomorphization(tcx) {
                    if let ty::TyKind::Adt(adt, args) = self_ty.kind() {
                        if adt.did().is_local() && !args.is_empty() {
                            let e = adt_insts.entry(adt.did()).or_default();
                            if !e.contains(args) {
                                e.push(args);
                            }
                        }
                    }
                }
            }
        }

        // 1. every non-generic fn in the crate
        for ld in tcx.mir_keys(()).iter() {
            let d = ld.to_def_id();
            if !matches!(tcx.def_kind(d), DefKind::Fn | DefKind::AssocFn) {
                continue;
            }
            if tcx.generics_of(d).requires_monomorphization(tcx) {
                continue;
            }
            let inst = Instance::mono(tcx, d);
            let key = self.enqueue(inst);
            bodies.push(s(key.clone()));
            roots.push(obj(vec![("key", s(key)), ("why", s("non-generic fn"))]));
        }

        // 2. generic inherent methods of local ADTs at the ADT's concrete instantiations
        for imp in inherent_impls.iter() {
            if !tcx.generics_of(*imp).requires_monomorphization(tcx) {
                continue;
            }
            let self_ty = tcx.type_of(*imp).instantiate_identity().skip_norm_wip();
            let ty::TyKind::Adt(adt, impl_self_args) = self_ty.kind() else { continue };
            let Some(insts) = adt_insts.get(&adt.did()).cloned() else { continue };
            // only the simple shape `impl<T: ..> X<T>`: impl generics == ADT generics, in order
            let ig = tcx.generics_of(*imp);
            if ig.own_params.len() != impl_self_args.len() {
                continue;
            }
            for item in tcx.associated_items(*imp).in_definition_order() {
                if !matches!(item.kind, ty::AssocKind::Fn { .. }) {
                    continue;
                }
                let fd = item.def_id;
                if tcx.generics_of(fd).own_params.iter().any(|p| {
                    !matches!(p.kind, ty::GenericParamDefKind::Lifetime)
                }) {
                    continue;
                }
                for args in insts.iter() {
                    let full = ty::GenericArgs::for_item(tcx, fd, |p, _| {
                        if (p.index as usize) < args.len() {
                            args[p.index as usize]
                        } else {
                            tcx.lifetimes.re_erased.into()
                        }
                    });
                    // check the where-clauses hold (e.g. [u8; 4]: AsRef<[u8]>)
                    if let Ok(Some(inst)) = Instance::try_resolve(tcx, self.env, fd, full) {
                        if tcx.is_mir_available(fd) {
                            let key = self.enqueue(inst);
                            roots.push(obj(vec![("key", s(key)),
                                                ("why", s("generic inherent method at ADT instantiation"))]));
                        }
                    }
                }
            }
        }

        // 3. provided trait methods of local traits at each concrete implementor
        for imp in trait_impls.iter() {
            if tcx.generics_of(*imp).requires_monomorphization(tcx) {
                continue;
            }
            let tr = tcx.impl_trait_ref(*imp).instantiate_identity().skip_norm_wip();
            if !tr.def_id.is_local() {
                continue;
            }
            for m in tcx.provided_trait_methods(tr.def_id) {
                let fd = m.def_id;
                if tcx.generics_of(fd).own_params.iter().any(|p| {
                    !matches!(p.kind, ty::GenericParamDefKind::Lifetime)
                }) {
                    continue;
                }
                let full = ty::GenericArgs::for_item(tcx, fd, |p, _| {
                    if (p.index as usize) < tr.args.len() {
                        tr.args[p.index as usize]
                    } else {
                        tcx.lifetimes.re_erased.into()
                    }
                });
                if let Ok(Some(inst)) = Instance::try_resolve(tcx, self.env, fd, full) {
                    let has = match inst.def {
                        ty::InstanceKind::Item(d) => tcx.is_mir_available(d),
                        _ => false,
                    };
                    if has {
                        let key = self.enqueue(inst);
                        roots.push(obj(vec![("key", s(key)),
                                            ("why", s("provided trait method at implementor"))]));
                    }
                }
            }
        }

        // worklist
        loop {
            if let Some(inst) = self.inst_queue.pop_front() {
                let key = self.inst_key(inst);
                let j = self.instance(inst);
                self.instances.insert(key, j);
                self.drain_adts();
            } else if let Some((key, inst)) = self.default_queue.pop_front() {
                let j = self.instance(inst);
                self.instances.insert(key, j);
                self.drain_adts();
            } else {
                break;
            }
        }
        self.drain_adts();

        // generic (un-instantiated) bodies of the crate: names only, for coverage accounting
        let mut generic_fns = Vec::new();
        for ld in tcx.mir_keys(()).iter() {
            let d = ld.to_def_id();
            if matches!(tcx.def_kind(d), DefKind::Fn | DefKind::AssocFn)
                && tcx.generics_of(d).requires_monomorphization(tcx)
            {
                generic_fns.push(s(tcx.def_path_str(d)));
            }
        }

        let meta = obj(vec![
            ("crate", s(tcx.crate_name(LOCAL_CRATE).to_string())),
            ("ptr_bits", n(self.ptr_bits())),
            ("overflow_checks", J::Bool(tcx.sess.overflow_checks())),
            ("debug_assertions", J::Bool(tcx.sess.opts.debug_assertions)),
            ("rustc", s(rustc_version())),
        ]);
        let insts = std::mem::take(&mut self.instances);
        let adts = std::mem::take(&mut self.adts);
        J::Obj(vec![
            ("meta".into(), meta),
            ("roots".into(), J::Arr(roots)),
            ("bodies".into(), J::Arr(bodies)),
            ("generic_fns".into(), J::Arr(generic_fns)),
            ("adts".into(), J::Obj(adts.into_iter().collect())),
            ("instances".into(), J::Obj(insts.into_iter().collect())),
        ])
    }
}

fn rustc_version() -> String {
    option_env!("CFG_VERSION").unwrap_or("nightly").to_string()
}

fn shim_kind(k: &ty::InstanceKind<'_>) -> String {
    match k {
        ty::InstanceKind::Item(_) => "item".into(),
        ty::InstanceKind::Intrinsic(_) => "intrinsic".into(),
        ty::InstanceKind::Virtual(..) => "virtual".into(),
        ty::InstanceKind::DropGlue(..) => "drop_glue".into(),
        ty::InstanceKind::CloneShim(..) => "clone_shim".into(),
        ty::InstanceKind::FnPtrShim(..) => "fn_ptr_shim".into(),
        ty::InstanceKind::ClosureOnceShim { .. } => "closure_once_shim".into(),
        ty::InstanceKind::ReifyShim(..) => "reify_shim".into(),
        ty::InstanceKind::VTableShim(..) => "vtable_shim".into(),
        _ => "other_shim".into(),
    }
}

fn binop_name(op: BinOp) -> &'static str {
    match op {
        BinOp::Add => "Add",
        BinOp::AddUnchecked => "AddUnchecked",
        BinOp::AddWithOverflow => "AddWithOverflow",
        BinOp::Sub => "Sub",
        BinOp::SubUnchecked => "SubUnchecked",
        BinOp::SubWithOverflow => "SubWithOverflow",
        BinOp::Mul => "Mul",
        BinOp::MulUnchecked => "MulUnchecked",
        BinOp::MulWithOverflow => "MulWithOverflow",
        BinOp::Div => "Div",
        BinOp::Rem => "Rem",
        BinOp::BitXor => "BitXor",
        BinOp::BitAnd => "BitAnd",
        BinOp::BitOr => "BitOr",
        BinOp::Shl => "Shl",
        BinOp::ShlUnchecked => "ShlUnchecked",
        BinOp::Shr => "Shr",
        BinOp::ShrUnchecked => "ShrUnchecked",
        BinOp::Eq => "Eq",
        BinOp::Lt => "Lt",
        BinOp::Le => "Le",
        BinOp::Ne => "Ne",
        BinOp::Ge => "Ge",
        BinOp::Gt => "Gt",
        BinOp::Cmp => "Cmp",
        BinOp::Offset => "Offset",
    }
}

fn main() {
    let mut args: Vec<String> = std::env::args().collect();
    // wrapper mode: argv[1] is the path of the real rustc
    if args.len() > 1 && (args[1].ends_with("rustc") || args[1].contains("/rustc")) {
        args.remove(1);
    }
    let crate_name = std::env::var("MIRDUMP_CRATE").unwrap_or_else(|_| "libmctp".to_string());
    let out = std::env::var("MIRDUMP_OUT").unwrap_or_else(|_| "mir.json".to_string());
    let mut cb = Dump { crate_name, out };
    rustc_driver::run_compiler(&args, &mut cb);
}
