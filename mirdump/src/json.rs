// Minimal JSON value + writer (no dependencies).
pub enum J {
    Null,
    Bool(bool),
    Num(String),
    Str(String),
    Arr(Vec<J>),
    Obj(Vec<(String, J)>),
}

fn esc(s: &str, out: &mut String) {
    out.push('"');
    for c in s.chars() {
        match c {
            '"' => out.push_str("\\\""),
            '\\' => out.push_str("\\\\"),
            '\n' => out.push_str("\\n"),
            '\r' => out.push_str("\\r"),
            '\t' => out.push_str("\\t"),
            c if (c as u32) < 0x20 => out.push_str(&format!("\\u{:04x}", c as u32)),
            c => out.push(c),
        }
    }
    out.push('"');
}

impl J {
    pub fn write(&self, out: &mut String) {
        match self {
            J::Null => out.push_str("null"),
            J::Bool(b) => out.push_str(if *b { "true" } else { "false" }),
            J::Num(n) => out.push_str(n),
            J::Str(s) => esc(s, out),
            J::Arr(v) => {
                out.push('[');
                for (i, x) in v.iter().enumerate() {
                    if i > 0 {
                        out.push(',');
                    }
                    x.write(out);
                }
                out.push(']');
            }
            J::Obj(v) => {
                out.push('{');
                for (i, (k, x)) in v.iter().enumerate() {
                    if i > 0 {
                        out.push(',');
                    }
                    esc(k, out);
                    out.push(':');
                    x.write(out);
                }
                out.push('}');
            }
        }
    }
}
