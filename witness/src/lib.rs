//! Compile-fail witnesses (thorough tier of C13 / C15): code outside the crate cannot reach the endpoint's state
//! except through the named accessors. Each witness is paired with a compiling twin that differs only in the
//! offending line, so a witness whose path is merely wrong cannot pass. Twins are `no_run`: compiled, never executed.

/// The EID cell of the response half is private: it can only be changed through `set_eid`.
/// ```compile_fail,E0616
/// use libmctp::MCTPSMBusContext;
/// let ctx = MCTPSMBusContext::new(0x23, &[], &[]);
/// ctx.get_response().eid.set(5);
/// ```
/// Twin (compiles):
/// ```no_run
/// use libmctp::MCTPSMBusContext;
/// use libmctp::mctp_traits::SMBusMCTPRequestResponse;
/// let ctx = MCTPSMBusContext::new(0x23, &[], &[]);
/// ctx.get_response().set_eid(5);
/// ```
pub struct ResponseEidIsPrivate;

/// The EID cell of the request half is private.
/// ```compile_fail,E0616
/// use libmctp::MCTPSMBusContext;
/// let ctx = MCTPSMBusContext::new(0x23, &[], &[]);
/// ctx.get_request().eid.set(5);
/// ```
/// Twin (compiles):
/// ```no_run
/// use libmctp::MCTPSMBusContext;
/// use libmctp::mctp_traits::SMBusMCTPRequestResponse;
/// let ctx = MCTPSMBusContext::new(0x23, &[], &[]);
/// ctx.get_request().set_eid(5);
/// ```
pub struct RequestEidIsPrivate;

/// The two halves cannot be replaced from outside.
/// ```compile_fail,E0616
/// use libmctp::MCTPSMBusContext;
/// let ctx = MCTPSMBusContext::new(0x23, &[], &[]);
/// let _ = &ctx.response;
/// ```
/// Twin (compiles):
/// ```no_run
/// use libmctp::MCTPSMBusContext;
/// let ctx = MCTPSMBusContext::new(0x23, &[], &[]);
/// let _ = ctx.get_response();
/// ```
pub struct HalvesArePrivate;

/// The UUID field is private: it can only be changed through `set_uuid`.
/// ```compile_fail,E0616
/// use libmctp::MCTPSMBusContext;
/// let mut ctx = MCTPSMBusContext::new(0x23, &[], &[]);
/// ctx.uuid = [1; 16];
/// ```
/// Twin (compiles):
/// ```no_run
/// use libmctp::MCTPSMBusContext;
/// let mut ctx = MCTPSMBusContext::new(0x23, &[], &[]);
/// ctx.set_uuid(&[1; 16]);
/// ```
pub struct UuidIsPrivate;

/// `set_uuid` needs exclusive access: it cannot be called through a shared reference (so no traffic handler,
/// which only has `&self`, can change the UUID).
/// ```compile_fail,E0596
/// use libmctp::MCTPSMBusContext;
/// let ctx = MCTPSMBusContext::new(0x23, &[], &[]);
/// let shared = &ctx;
/// shared.set_uuid(&[1; 16]);
/// ```
/// Twin (compiles):
/// ```no_run
/// use libmctp::MCTPSMBusContext;
/// let mut ctx = MCTPSMBusContext::new(0x23, &[], &[]);
/// let exclusive = &mut ctx;
/// exclusive.set_uuid(&[1; 16]);
/// ```
pub struct SetUuidNeedsMut;

/// The vendor ID selector scratch cell is private.
/// ```compile_fail,E0616
/// use libmctp::MCTPSMBusContext;
/// let ctx = MCTPSMBusContext::new(0x23, &[], &[]);
/// ctx.vendor_id_selector.set(1);
/// ```
/// Twin (compiles):
/// ```no_run
/// use libmctp::MCTPSMBusContext;
/// let ctx = MCTPSMBusContext::new(0x23, &[], &[]);
/// let _ = ctx.get_request();
/// ```
pub struct SelectorIsPrivate;
