//! Demonstrations, against the real library, of the known findings listed in /verif/KNOWN_FINDINGS.txt.
//! Not a check and not part of any verdict: it documents that each finding is a genuine defect of libmctp
//! (the failing input, call or history), as the task asks for anything recorded rather than repaired.
//! Run in a scratch copy of /repo:  cp this file to tests/known.rs ; cargo test --offline --test known
//! Every test PASSES when the defect is present (it asserts the defective behaviour).
use libmctp::control_packet::*;
use libmctp::smbus::MCTPSMBusContext;
use libmctp::vendor_packets::VendorIDFormat;
use libmctp::{ControlMessageError, DecodeError, MessageType};

fn pec(bytes: &[u8]) -> u8 {
    let mut crc = 0u8;
    for b in bytes {
        crc ^= b;
        for _ in 0..8 {
            crc = if crc & 0x80 != 0 { (crc << 1) ^ 0x07 } else { crc << 1 };
        }
    }
    crc
}

fn vendor_ids() -> [VendorIDFormat; 1] {
    [VendorIDFormat { format: 0, data: 0x1234, numeric_value: 0xAB }]
}

/// D2 (C01): the library's own Success Get Endpoint ID response, handed back as exactly the encoded bytes,
/// is rejected (length table 4, encoder emits 3).
#[test]
fn d2_get_endpoint_id_response_is_rejected_at_exact_length() {
    let v = vendor_ids();
    let ctx = MCTPSMBusContext::new(0x23, &[], &v);
    let mut buf = [0u8; 64];
    let len = ctx
        .get_response()
        .get_endpoint_id(
            CompletionCode::Success,
            0x34,
            MCTPGetEndpointIDEndpointType::Simple,
            MCTPGetEndpointIDEndpointIDType::DynamicEID,
            false,
            &mut buf,
        )
        .unwrap();
    assert_eq!(len, 16);
    let r = ctx.decode_packet(&buf[..len]);
    assert_eq!(
        r,
        Err((
            MessageType::MCtpControl,
            DecodeError::ControlMessage(ControlMessageError::InvalidRequestDataLength)
        ))
    );
}

/// D6 (C06): query_hop sends command code 0x0E (Get Network ID); DSP0236 assigns 0x0F.
#[test]
fn d6_query_hop_sends_get_network_id_code() {
    let v = vendor_ids();
    let ctx = MCTPSMBusContext::new(0x23, &[], &v);
    let mut buf = [0u8; 32];
    ctx.get_request().query_hop(0x34, 0x10, MessageType::MCtpControl, &mut buf).unwrap();
    assert_eq!(buf[10], 0x0E);
}

fn control_request(cmd: u8, data: &[u8]) -> ([u8; 40], usize) {
    let mut p = [0u8; 40];
    let len = 12 + data.len();
    p[0] = 0x23 << 1;
    p[1] = 0x0F;
    p[2] = (len - 4) as u8;
    p[3] = (0x34 << 1) | 1;
    p[4] = 0x01;
    p[5] = 0x23;
    p[6] = 0x34;
    p[7] = 0xC8;
    p[8] = 0x00;
    p[9] = 0x80 | 0x05; // Rq = 1, instance ID 5
    p[10] = cmd;
    p[11..11 + data.len()].copy_from_slice(data);
    p[len - 1] = pec(&p[..len - 1]);
    (p, len)
}

/// D9 (C10): accepted control requests with no handler panic the request processor (one representative per class).
#[test]
fn d9_process_packet_panics_on_unhandled_requests() {
    let cases: [(u8, &[u8]); 6] = [
        (0x00, &[]),           // Reserved -> unreachable!()
        (0x07, &[0x10]),       // Resolve Endpoint ID -> unimplemented!()
        (0x0B, &[]),           // Prepare for Endpoint Discovery -> unimplemented!()
        (0x14, &[]),           // Query Supported Interfaces -> unimplemented!()
        (0x42, &[]),           // unknown command -> unimplemented!()
        (0x01, &[0x02, 0x10]), // Set Endpoint ID, operation Reset EID -> unimplemented!()
    ];
    for (cmd, data) in cases {
        let (p, len) = control_request(cmd, data);
        let r = std::panic::catch_unwind(|| {
            let v = vendor_ids();
            let ctx = MCTPSMBusContext::new(0x23, &[], &v);
            // the decoder accepts it ...
            assert!(ctx.decode_packet(&p[..len]).is_ok());
            let mut out = [0u8; 64];
            // ... and the request processor panics
            let _ = ctx.process_packet(&p[..len], &mut out);
        });
        assert!(r.is_err(), "command {:#x} did not panic", cmd);
    }
}

/// D11 (C12): the response does not echo the request's instance ID.
#[test]
fn d11_instance_id_is_not_echoed() {
    let v = vendor_ids();
    let ctx = MCTPSMBusContext::new(0x23, &[], &v);
    let (p, len) = control_request(0x02, &[]); // Get Endpoint ID, instance ID 5
    let mut out = [0u8; 64];
    let (_, n) = ctx.process_packet(&p[..len], &mut out).unwrap();
    assert!(n.is_some());
    assert_eq!(p[9] & 0x1F, 5);
    assert_eq!(out[9] & 0x1F, 0);
}
